import RjModel.Lemmas.WireLemmas
import RjModel.Model.Channel
import RjModel.Generated.Skeletons
import RjModel.Generated.LinkSocket
/-! # C14 — messages arrive exactly once, in order and intact, with bounded buffering -/
namespace Rj.C14
open Rj Rj.Wire

/-- **Bincode round trip, commands**: for every command (all variants, payloads of any length that a
`u64` can count) decoding the encoding gives the command back and consumes exactly its bytes. -/
theorem C14_cmd_roundtrip (c : WCmd) (rest : B) (h : wfCmd c) : dCmd (eCmd c ++ rest) = some (c, rest) := by
  cases c with
  | setRoot r => simp [dCmd, eCmd, List.append_assoc, dTag, dBytes_eBytes r rest h]
  | getEntries ps ks =>
    obtain ⟨h1, h2, h3⟩ := h
    simp [dCmd, eCmd, List.append_assoc, dTag, dNat8 _ _ h1, dStrs_eStrs ps _ h3, dNat8 _ _ h2, dKinds_eKinds]
  | createRootAncestors => simp [dCmd, eCmd, dTag]
  | getFileContent p => simp [dCmd, eCmd, List.append_assoc, dTag, dBytes_eBytes p rest h]
  | createOrUpdateFile p d t more =>
    obtain ⟨h1, h2, h3⟩ := h
    simp [dCmd, eCmd, List.append_assoc, dTag, dBytes_eBytes p _ h1, dBytes_eBytes d _ h2, dOptTime_eOptTime t _ h3, dBool_eBool]
  | createSymlink p k t =>
    obtain ⟨h1, h2⟩ := h
    simp [dCmd, eCmd, List.append_assoc, dTag, dBytes_eBytes p _ h1, dKind_eKind, dTarget_eTarget t rest h2]
  | createFolder p => simp [dCmd, eCmd, List.append_assoc, dTag, dBytes_eBytes p rest h]
  | deleteFile p => simp [dCmd, eCmd, List.append_assoc, dTag, dBytes_eBytes p rest h]
  | deleteFolder p => simp [dCmd, eCmd, List.append_assoc, dTag, dBytes_eBytes p rest h]
  | deleteSymlink p k => simp [dCmd, eCmd, List.append_assoc, dTag, dBytes_eBytes p _ h, dKind_eKind]
  | profilingTimeSync => simp [dCmd, eCmd, dTag]
  | marker m => simp [dCmd, eCmd, List.append_assoc, dTag, dMarker_eMarker m rest h]
  | shutdown => simp [dCmd, eCmd, dTag]

/-- **Bincode round trip, responses.** -/
theorem C14_resp_roundtrip (c : WResp) (rest : B) (h : wfResp c) : dResp (eResp c ++ rest) = some (c, rest) := by
  cases c with
  | rootDetails d diff sep =>
    obtain ⟨h1, h2⟩ := h
    simp [dResp, eResp, List.append_assoc, dTag, dOptDetails_eOptDetails d _ h2, dBool_eBool, UInt8.toNat_ofNat']
    omega
  | entry p d =>
    obtain ⟨h1, h2⟩ := h
    simp [dResp, eResp, List.append_assoc, dTag, dBytes_eBytes p _ h1, dDetails_eDetails d rest h2]
  | endOfEntries => simp [dResp, eResp, dTag]
  | fileContent d more => simp [dResp, eResp, List.append_assoc, dTag, dBytes_eBytes d _ h, dBool_eBool]
  | profilingTimeSync s n =>
    obtain ⟨h1, h2⟩ := h
    simp [dResp, eResp, List.append_assoc, dTag, dNat8 _ _ h1, dNat4 _ _ h2]
  | marker m => simp [dResp, eResp, List.append_assoc, dTag, dMarker_eMarker m rest h]
  | error msg => simp [dResp, eResp, List.append_assoc, dTag, dBytes_eBytes msg rest h]

/-- the accounted size of a file chunk is its length plus 13 bytes of framing -/
theorem C14_size_fileContent (d : B) (more : Bool) : (eResp (.fileContent d more)).length = d.length + 13 := by
  simp [eResp, eBytes, eBool]; omega

/-- a sequence of frames decodes to the sequence of messages (exactly once, in order, intact) -/
def eCmds : List WCmd → B
  | [] => []
  | c :: cs => eCmd c ++ eCmds cs
def dCmds : Nat → B → Option (List WCmd)
  | 0, [] => some []
  | 0, _ => none
  | n + 1, b => (dCmd b).bind fun (c, r) => (dCmds n r).map (c :: ·)

theorem C14_stream_roundtrip (cs : List WCmd) (h : ∀ c ∈ cs, wfCmd c) : dCmds cs.length (eCmds cs) = some cs := by
  induction cs with
  | nil => rfl
  | cons c rest ih =>
    simp [dCmds, eCmds, C14_cmd_roundtrip c _ (h c (List.mem_cons_self ..)), ih (fun x hx => h x (List.mem_cons_of_mem _ hx))]

/-! ## the memory-bound channel -/
open Rj.Chan

/-- the protocol features of the source are those the theorems below were proved for -/
theorem C14_channel_matches : Generated.channelFeatures = ChanFeatures.ref := by decide

/-- **Counter and conservation invariant**, preserved by every atomic step of either thread -/
theorem C14_inv_step (cap : Nat) (all : List Nat) (s s' : St) (a : Act)
    (h : Chan.Inv all s) (hs : step cap s a = some s') : Chan.Inv all s' := by
  obtain ⟨hc, hl⟩ := h
  cases a <;> simp only [step] at hs
  · -- fetchAdd
    split at hs <;> try cases hs
    next m rest hspc hts =>
      constructor
      · simp only [hspc, SPC.sz] at hc
        simp only []; split <;> simp [SPC.sz, hc] <;> omega
      · simp only [hspc, SPC.lst, hts] at hl
        simp only []; split <;> simpa [SPC.lst] using hl
  · -- spinPass
    split at hs
    next m hspc =>
      split at hs <;> cases hs
      constructor
      · simpa [hspc, SPC.sz] using hc
      · simpa [hspc, SPC.lst] using hl
    all_goals cases hs
  · -- innerSend
    split at hs <;> try cases hs
    next m hspc =>
      constructor
      · simp only [hspc, SPC.sz] at hc; simp [SPC.sz, hc]
      · simpa [hspc, SPC.lst] using hl
  · -- recv
    split at hs <;> try cases hs
    next m q' hrpc hq =>
      constructor
      · simp only [hrpc, hq, RPC.sz, List.sum_cons] at hc; simp [RPC.sz, hc]; omega
      · simpa [hrpc, hq, RPC.lst] using hl
  · -- fetchSub
    split at hs <;> try cases hs
    next m hrpc =>
      constructor
      · simp only [hrpc, RPC.sz] at hc; simp [RPC.sz, hc]
      · simpa [hrpc, RPC.lst] using hl

/-- a waiting sender is never stuck: the receiver or the sender itself can move -/
theorem C14_progress (cap : Nat) (all : List Nat) (s : St) (m : Nat)
    (h : Chan.Inv all s) (hw : s.spc = .waiting m) :
    (step cap s .spinPass).isSome ∨ (step cap s .recv).isSome ∨ (step cap s .fetchSub).isSome := by
  obtain ⟨hc, _⟩ := h
  simp only [hw, SPC.sz] at hc
  by_cases hgt : s.counter - m > cap
  · right
    cases hr : s.rpc with
    | got k => right; simp [step, hr]
    | idle =>
      left
      cases hq : s.q with
      | nil => simp [hr, hq, RPC.sz] at hc; omega
      | cons x xs => simp [step, hr, hq]
  · left; simp [step, hw, hgt]

/-- drained and quiescent => accounted size is zero -/
theorem C14_drained_zero (all : List Nat) (s : St) (h : Chan.Inv all s)
    (h1 : s.spc = .idle) (h2 : s.rpc = .idle) (h3 : s.q = []) : s.counter = 0 := by
  obtain ⟨hc, _⟩ := h; simp [h1, h2, h3, SPC.sz, RPC.sz] at hc; exact hc

/-- with nothing queued a message of any size is admitted at once -/
theorem C14_oversize_passes (cap : Nat) (all : List Nat) (s : St) (m : Nat) (rest : List Nat) (h : Chan.Inv all s)
    (h1 : s.spc = .idle) (h2 : s.rpc = .idle) (h3 : s.q = []) (h4 : s.toSend = m :: rest) :
    ∃ s', step cap s .fetchAdd = some s' ∧ s'.spc = .ready m := by
  have h0 := C14_drained_zero all s h h1 h2 h3
  refine ⟨_, by simp only [step, h1, h4]; rfl, ?_⟩
  simp [h0]

theorem C14_init_inv (msgs : List Nat) : Chan.Inv msgs (St.init msgs) := by
  simp [Chan.Inv, St.init, SPC.sz, RPC.sz, SPC.lst, RPC.lst]

/-- **Every reachable state**: for every capacity (0 and smaller than one message included), every
message sequence and every schedule of the two threads, the counter equals the accounted size of
what is in flight, and `delivered ++ in flight ++ not yet sent` is the sequence handed to `send` —
so what has been delivered is always a prefix of it: exactly once, in order. -/
theorem C14_reachable (cap : Nat) (msgs : List Nat) (sched : List Act) :
    Chan.Inv msgs (runSched cap (St.init msgs) sched) := by
  suffices ∀ s, Chan.Inv msgs s → Chan.Inv msgs (runSched cap s sched) from this _ (C14_init_inv msgs)
  induction sched with
  | nil => intro s h; exact h
  | cons a as ih =>
    intro s h
    simp only [runSched]
    cases hs : step cap s a with
    | none => exact ih s h
    | some s' => exact ih s' (C14_inv_step cap msgs s s' a h hs)

theorem C14_fifo (cap : Nat) (msgs : List Nat) (sched : List Act) :
    ∃ rest, (runSched cap (St.init msgs) sched).delivered ++ rest = msgs := by
  obtain ⟨_, hl⟩ := C14_reachable cap msgs sched
  generalize runSched cap (St.init msgs) sched = s at hl
  exact ⟨s.rpc.lst ++ (s.q ++ (s.spc.lst ++ s.toSend)), by rw [← hl]; simp [List.append_assoc]⟩

/-- **A sender is held back only while more than the capacity is already queued**: the admission
test fails only if the bytes counted *before* its own message exceed the capacity. -/
theorem C14_blocks_only_over (cap : Nat) (s s' : St) (m : Nat) (h : step cap s .fetchAdd = some s')
    (hw : s'.spc = .waiting m) : s.counter > cap := by
  simp only [step] at h
  split at h <;> try cases h
  next m' rest _ _ =>
    simp only at hw
    split at hw
    · assumption
    · cases hw

/-- Non-vacuity: capacity 10, messages 8, 8, 8: the third one waits until the first is received. -/
example :
    let s := runSched 10 (St.init [8, 8, 8]) [.fetchAdd, .innerSend, .fetchAdd, .innerSend, .fetchAdd, .spinPass]
    s.spc = .waiting 8 ∧ s.counter = 24 ∧
    (runSched 10 s [.recv, .fetchSub, .spinPass, .innerSend, .recv, .fetchSub, .recv, .fetchSub]).delivered = [8, 8, 8] ∧
    (runSched 10 s [.recv, .fetchSub, .spinPass, .innerSend, .recv, .fetchSub, .recv, .fetchSub]).counter = 0 := by
  decide

/-- **The link is a plain blocking stream**: no read or write time-out and no non-blocking mode is set on any socket in
the source (re-extracted on every run).  The delivery theorems speak about a stream that delivers the next byte or ends; a
read that gives up after a silence is neither — a frozen peer, a slow disk or a user thinking about a prompt would lose
messages that were still to come. -/
theorem C14_link_socket_plain : Generated.linkSocketPlain = true := by decide

end Rj.C14
