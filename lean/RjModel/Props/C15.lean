import RjModel.Model.Launch
import RjModel.Lemmas.KeyLemmas
/-! # C15 — a remote doer is used only after a version match; deployment needs consent -/
namespace Rj.C15
open Rj

/-- **Key text round trip, for all 2^128 keys** (leading zero bytes included): what the doer
reconstructs from `format!("{:x}", key)` is the key. -/
theorem C15_key_roundtrip (key : List Nat) (hl : key.length = 16) (h : ∀ b ∈ key, b < 256) :
    Key.roundTrip key = some key := by
  unfold Key.roundTrip Key.parseU128
  have hne : Key.fmt key ≠ [] := by
    cases key with
    | nil => simp at hl
    | cons b bs => simp [Key.fmt]
  simp only [hne, ↓reduceIte, Key.parse_fmt key 0 h]
  have hlt : Key.fromBE 0 key < 2 ^ 128 := by
    have := Key.fromBE_lt key h
    rw [hl] at this
    calc Key.fromBE 0 key < 256 ^ 16 := this
      _ = 2 ^ 128 := by decide
  simp only [hlt, ↓reduceIte, Option.map_some]
  rw [← hl, Key.toBE_fromBE key h]

/-- the text is always 32 characters -/
theorem C15_key_text_length (key : List Nat) : (Key.fmt key).length = 2 * key.length := by
  induction key with
  | nil => rfl
  | cons b bs ih => simp [Key.fmt, ih]; omega

theorem hstep_wrote (localV : String) (s s' : HState) (m : Strm × HMsg)
    (h : hstep localV s m = .inl (s', true)) : m = (.out, .started localV) := by
  obtain ⟨st, msg⟩ := m
  obtain ⟨k, o, e⟩ := s
  cases msg with
  | line hl => cases hl <;> simp [hstep] at h
  | started v =>
    by_cases hv : v = localV
    · subst hv; cases st <;> simp [hstep] at h ⊢
    · simp [hstep, hv] at h
  | completed p =>
    cases p with
    | none => simp [hstep] at h
    | some q => cases st <;> cases k <;> cases o <;> cases e <;> simp [hstep] at h
  | closed => simp [hstep] at h
  | error => simp [hstep] at h

theorem hstep_keySent (localV : String) (s s' : HState) (m : Strm × HMsg) (w : Bool)
    (h : hstep localV s m = .inl (s', w)) : s'.keySent = (s.keySent || w) := by
  obtain ⟨st, msg⟩ := m
  obtain ⟨k, o, e⟩ := s
  cases msg with
  | line hl => cases hl <;> simp [hstep] at h; obtain ⟨h1, h2⟩ := h; subst h1; subst h2; simp
  | started v =>
    by_cases hv : v = localV
    · subst hv; cases st <;> simp [hstep] at h <;> obtain ⟨h1, h2⟩ := h <;> subst h1 <;> subst h2 <;> simp
    · simp [hstep, hv] at h
  | completed p =>
    cases p with
    | none => simp [hstep] at h
    | some q =>
      cases st <;> cases k <;> cases o <;> cases e <;> simp [hstep] at h <;>
        obtain ⟨h1, h2⟩ := h <;> subst h1 <;> subst h2 <;> simp
  | closed => simp [hstep] at h; obtain ⟨h1, h2⟩ := h; subst h1; subst h2; simp
  | error => simp [hstep] at h

theorem hstep_success (localV : String) (s : HState) (m : Strm × HMsg) (p : Nat)
    (h : hstep localV s m = .inr (.success p)) : s.keySent = true := by
  obtain ⟨st, msg⟩ := m
  obtain ⟨k, o, e⟩ := s
  cases msg with
  | line hl => cases hl <;> simp [hstep] at h
  | started v =>
    by_cases hv : v = localV
    · subst hv; cases st <;> simp [hstep] at h
    · simp [hstep, hv] at h
  | completed q =>
    cases q with
    | none => simp [hstep] at h
    | some q => cases st <;> cases k <;> cases o <;> cases e <;> simp [hstep] at h ⊢
  | closed => simp [hstep] at h
  | error => simp [hstep] at h

/-- **The key is written only on an exact version match, on stdout's handshake line.**  In every run
of the handshake loop over *any* message sequence, a step writes the key only if its message is the
started-line of stdout carrying exactly the local version string. -/
theorem C15_key_after_match (localV : String) (msgs : List (Strm × HMsg)) (s : HState) (i : Nat)
    (h : (hrun localV s msgs).2[i]? = some true) :
    msgs[i]? = some (.out, .started localV) := by
  induction msgs generalizing s i with
  | nil => simp [hrun] at h
  | cons m rest ih =>
    simp only [hrun] at h
    cases hs : hstep localV s m with
    | inr r => simp only [hs] at h; cases i <;> simp at h
    | inl p =>
      obtain ⟨s', w⟩ := p
      simp only [hs] at h
      cases i with
      | zero =>
        simp only [List.getElem?_cons_zero, Option.some.injEq] at h ⊢
        subst h
        exact hstep_wrote localV s s' m hs
      | succ j =>
        simp only [List.getElem?_cons_succ] at h ⊢
        exact ih s' j h

/-- to any other version nothing is written: the loop returns at that message -/
theorem C15_other_version_no_key (localV v : String) (st : Strm) (s : HState) (rest : List (Strm × HMsg)) (hv : v ≠ localV) :
    hrun localV s ((st, .started v) :: rest) = (.incompatible v, [false]) := by
  simp [hrun, hstep, hv]

/-- success implies the key was handed over (so there is no sync traffic without a version match) -/
theorem C15_success_needs_key (localV : String) (msgs : List (Strm × HMsg)) (s : HState) (p : Nat)
    (h : (hrun localV s msgs).1 = .success p) : s.keySent = true ∨ true ∈ (hrun localV s msgs).2 := by
  induction msgs generalizing s with
  | nil => simp [hrun] at h
  | cons m rest ih =>
    simp only [hrun] at h ⊢
    cases hs : hstep localV s m with
    | inr r =>
      simp only [hs] at h
      subst h
      exact Or.inl (hstep_success localV s m p hs)
    | inl q =>
      obtain ⟨s', w⟩ := q
      simp only [hs] at h ⊢
      have hk := hstep_keySent localV s s' m w hs
      rcases ih s' h with h1 | h1
      · rw [hk] at h1
        cases hsk : s.keySent with
        | true => exact Or.inl rfl
        | false =>
          right
          simp only [hsk, Bool.false_or] at h1
          subst h1
          exact List.mem_cons_self ..
      · exact Or.inr (List.mem_cons_of_mem _ h1)

/-- **Deployment needs consent**: something is uploaded only if the deploy behaviour is `ok` or
`force`, or it is `prompt` and the answer is "Deploy"; with `error`, or a cancelled prompt, nothing
is uploaded and the run fails unless the first launch already succeeded; after a deploy there is
exactly one relaunch. -/
theorem C15_deploy_consent (b : DeployBeh) (first second : LaunchRes) (ans scp : Bool) :
    let t := setupComms b first second ans scp
    (t.uploads = true → b = .ok ∨ b = .force ∨ (b = .prompt ∧ ans = true)) ∧
    (b = .error → t.uploads = false ∧ (t.ok = true → first = .success)) ∧
    (b = .prompt → ans = false → t.uploads = false ∧ (t.ok = true → first = .success)) ∧
    (t.ok = true → t.uploads = true → second = .success ∧ t.launches = (if b = .force then 1 else 2)) ∧
    t.launches ≤ 2 := by
  cases b <;> cases first <;> cases second <;> cases ans <;> cases scp <;> decide

/-- Non-vacuity: a causally possible interleaving with noise succeeds; the key is written once. -/
example : hrun "v" HState.init [(.err, .line true), (.err, .started "v"), (.out, .started "v"), (.out, .line true),
            (.err, .completed (some 40000)), (.out, .completed (some 40000))] =
          (.success 40000, [false, false, true, false, false, false]) := by decide

end Rj.C15
