import RjModel.Lemmas.SyncLemmas
import RjModel.Lemmas.FilteredListing
import RjModel.Lemmas.DoerLemmas
import RjModel.Lemmas.BossTraces
import RjModel.Lemmas.ConfirmLemmas
import RjModel.Props.C01
import RjModel.Generated.Sites
/-! # C02 — the source is never modified; nothing outside the destination is touched
(boss side: which commands each doer can ever be sent) -/
namespace Rj.C02
open Rj

/-- **The source doer is only ever asked to report its root, list entries and read file contents**
— for every scenario: any replies (errors and unexpected variants included), any arrival order of
the listings, any behaviours and prompt answers, dry run or not, any moment at which a destination
error becomes visible. -/
theorem C02_src_trace (w : Wrap) (sc : Scenario) : ∀ c ∈ (run w sc).srcTrace, c.readOnly = true := by
  have A : Allowed sc.dryRun (fun c => c.readOnly = true) (fun _ => True) (fun f => compileFilters w.pre w.post sc.filters = some f) :=
    ⟨fun _ => rfl, fun _ _ => rfl, fun _ _ => rfl, fun _ => trivial, fun _ _ => trivial, fun _ => trivial, fun _ _ _ => trivial⟩
  exact (run_ok w sc A).1

/-- no mutating command is ever sent to the source -/
theorem C02_src_never_mutated (w : Wrap) (sc : Scenario) : ∀ c ∈ (run w sc).srcTrace, c.mutating = false := by
  intro c hc
  have := C02_src_trace w sc c hc
  cases c <;> simp_all [Cmd.readOnly, Cmd.mutating]

/-- **The same on the source text** (extracted on every run): every `send_command` site on the source
handle sends `SetRoot`, `GetEntries` or `GetFileContent`. -/
theorem C02_src_sites :
    ∀ s ∈ Generated.sites, s.handle = "src" → s.variant ∈ ["SetRoot", "GetEntries", "GetFileContent"] := by
  decide

/-- `CreateRootAncestors` — the one command that works outside the destination root — goes to the
destination only, at most once, never in a dry run. -/
theorem C02_ancestors_not_in_dry_run (w : Wrap) (sc : Scenario) (hd : sc.dryRun = true) :
    Cmd.createRootAncestors ∉ (run w sc).destTrace := by
  have A : Allowed sc.dryRun (fun _ => True) (fun c => c ≠ .createRootAncestors) (fun f => compileFilters w.pre w.post sc.filters = some f) :=
    ⟨fun _ => trivial, fun _ _ => trivial, fun _ _ => trivial, fun _ => by simp, fun _ _ => by simp, fun _ => by simp,
     fun h => by simp [hd] at h⟩
  intro h
  exact (run_ok w sc A).2 _ h rfl

/-- **A kept destination entry is never written through.**  If the confirmation pass ends without error
and the deletion of a destination entry that is *in the way of* a source entry (reason `incompatible`:
e.g. a symlink where the source has a folder) was skipped, then no copy remains planned at that path
or anywhere inside it — so nothing is created "inside" a kept symlink, i.e. outside the destination.
(This is the repair of finding C02-F7a; before it the copies stayed in the plan.) -/
theorem C02_kept_entry_blocks_copies (c c' : Conf) (del del' : OMap (Details × DelReason)) (cpy cpy' : OMap (Details × CopyReason))
    (h : confirmActions c del cpy = (none, c', del', cpy'))
    (p : String) (d : Details) (hp : del.get p = some (d, .incompatible)) (hs : del'.get p = none) :
    ∀ k ∈ cpy'.keys, ¬ (k = p ∨ isInside k p = true) := by
  unfold confirmActions at h
  generalize hcd : confirmDeletes c del.iter [] = r1 at h
  obtain ⟨e1, c1, rm⟩ := r1
  cases e1 with
  | some e => simp at h
  | none =>
    simp only at h
    generalize hcc : confirmCopies c1 (removeAll cpy (blockedCopies del cpy rm)).iter [] = r2 at h
    obtain ⟨e2, c2, rm2⟩ := r2
    cases e2 with
    | some e => simp at h
    | none =>
      simp only [Prod.mk.injEq, true_and] at h
      obtain ⟨-, hd', hc'⟩ := h
      -- the deletion at `p` was skipped: `p ∈ rm`
      have hrm : p ∈ rm := by
        have := removeAll_get del rm p
        rw [hd', hs] at this
        by_cases hm : p ∈ rm
        · exact hm
        · simp [hm, hp] at this
      intro k hk hbad
      rw [← hc'] at hk
      obtain ⟨hv, hsome⟩ := (mem_keys_iff _ k).mp hk
      rw [removeAll_vec, removeAll_vec] at hv
      rw [removeAll_get, removeAll_get] at hsome
      by_cases h2 : k ∈ rm2
      · simp [h2] at hsome
      · simp only [h2, ↓reduceIte] at hsome
        by_cases h3 : k ∈ blockedCopies del cpy rm
        · simp [h3] at hsome
        · simp only [h3, ↓reduceIte] at hsome
          apply h3
          have hkk : k ∈ cpy.keys := (mem_keys_iff _ k).mpr ⟨hv, hsome⟩
          simp only [blockedCopies, List.mem_filter, List.any_eq_true, Bool.or_eq_true, beq_iff_eq]
          refine ⟨hkk, p, ⟨hrm, by simp [hp]⟩, ?_⟩
          rcases hbad with e | e
          · exact Or.inl e
          · exact Or.inr e

def isDelete : Cmd → Bool
  | .deleteFile _ | .deleteFolder _ | .deleteSymlink .. => true
  | _ => false

theorem deleteLoop_dest (c : Ctx) (errAt : Option Nat) (l : List (String × (Details × DelReason))) (x : XState) (st : Stats) :
    ∀ cmd ∈ (deleteLoop c errAt l x st).2.1.dest, cmd ∈ x.dest ∨ isDelete cmd = true := by
  induction l generalizing x st with
  | nil => intro cmd h; exact Or.inl h
  | cons it rest ih =>
    obtain ⟨p, d, r⟩ := it
    simp only [deleteLoop]
    have hstep : ∀ cmd ∈ ((delStepState c x p d).poll errAt).2.dest, cmd ∈ x.dest ∨ isDelete cmd = true := by
      intro cmd h
      simp only [XState.poll, delStepState] at h
      by_cases hd : c.dryRun = true
      · simp only [hd, ↓reduceIte, XState.info] at h; exact Or.inl h
      · simp only [hd, Bool.false_eq_true, ↓reduceIte, XState.sendDest, List.mem_append, List.mem_singleton] at h
        rcases h with h | h
        · exact Or.inl h
        · right; subst h; cases d <;> rfl
    by_cases hp : ((delStepState c x p d).poll errAt).1 = true
    · simp only [hp, ↓reduceIte]; exact hstep
    · simp only [hp, Bool.false_eq_true, ↓reduceIte]
      intro cmd h
      rcases ih _ _ cmd h with h' | h'
      · exact hstep cmd h'
      · exact Or.inr h'

theorem filter_mutating_deletes (l : List (String × (Details × DelReason))) :
    ((l.map (fun it => deleteCmd it.1 it.2.1)).filter Cmd.mutating).length = l.length := by
  induction l with
  | nil => rfl
  | cons it rest ih =>
    obtain ⟨p, d, r⟩ := it
    have : (deleteCmd p d).mutating = true := deleteCmd_mutating p d
    simp [this, ih]

/-- **A failed deletion is followed by no creation.**  If the destination command that the doer
answers with an error is one of the deletions, then — whenever that answer becomes visible to the
non-blocking polls — the boss sends nothing but deletions and the phase marker after what it had
sent before the execution phase: no folder, link or file is created behind a deletion that failed
(in particular not "inside" a symlink that could not be removed).  This is the repair of finding
C02-F7b (barrier after the delete phase); before it the creations were already queued. -/
theorem C02_failed_delete_blocks_creations (sc : Scenario) (ctx : Ctx) (x : XState) (conf : Conf)
    (del : OMap (Details × DelReason)) (cpy : OMap (Details × CopyReason))
    (hdry : ctx.dryRun = false) (k : Nat) (hk : sc.errCmd = some k)
    (hge : (x.dest.filter Cmd.mutating).length ≤ k)
    (hlt : k < (x.dest.filter Cmd.mutating).length + del.iter.length) :
    ∀ c ∈ (execPhase sc ctx x conf del cpy).destTrace, c ∈ x.dest ∨ isDelete c = true ∨ c = .marker .copying := by
  unfold execPhase
  have hsub := deleteLoop_dest ctx sc.errAtPoll del.iter x {}
  generalize hr : deleteLoop ctx sc.errAtPoll del.iter x {} = r1 at hsub
  obtain ⟨e1, x1, st1⟩ := r1
  cases e1 with
  | some e =>
    intro c hc
    rcases hsub c hc with h | h
    · exact Or.inl h
    · exact Or.inr (Or.inl h)
  | none =>
    simp only
    obtain ⟨htr, -⟩ := C01.C01_delete_trace ctx hdry sc.errAtPoll del.iter x x1 {} st1 hr
    have hne : del.iter.isEmpty = false := by
      cases hl : del.iter with
      | nil => simp [hl] at hlt; omega
      | cons a b => rfl
    have hb : barrierFails sc ctx del (x1.sendDest (.marker .copying)) = true := by
      simp only [barrierFails, hdry, hne, XState.failedSent, hk, XState.sendDest, htr, Bool.not_false, Bool.true_and,
        List.filter_append, List.length_append, filter_mutating_deletes, decide_eq_true_eq]
      simp [Cmd.mutating]
      omega
    rw [if_pos hb]
    intro c hc
    simp only [mkResult, XState.sendDest, List.mem_append, List.mem_singleton] at hc
    rcases hc with hc | hc
    · rcases hsub c hc with h | h
      · exact Or.inl h
      · exact Or.inr (Or.inl h)
    · exact Or.inr (Or.inr hc)

def exampleScenario : Scenario where
  srcRoot := "S"
  destRoot := "D"
  dryRun := false
  beh := ⟨.proceed, .proceed, .skip, .proceed, .proceed⟩
  filters := []
  srcReply := .details (some .folder) false '/'
  destReply := .details (some .folder) false '/'
  destReply2 := .other
  events := [.entry .src "f" (.file 5 1), .entry .dest "g" (.file 1 1), .endOf .src, .endOf .dest]
  answers := []
  files := [("f", [([7], false)])]
  errAtPoll := none

/-- Non-vacuity: a run that copies a file and deletes another one; the source sees three commands. -/
example :
    ((run ⟨"^(?:", ")$"⟩ exampleScenario).srcTrace, (run ⟨"^(?:", ")$"⟩ exampleScenario).outcome) =
      ([.setRoot "S", .getEntries [], .getFileContent "f"], .ok) := by
  decide

/-! ### the doer's side, over the file-system model -/

/-- **What one executed command may change** (the doer model, any state, any command): nothing; or only
the one path `root ++ relative path` the command names; or — `CreateRootAncestors` — missing prefixes of
the root's parent become folders.  In particular read-only commands change nothing, and no command
changes a path outside the root other than by creating the root's missing ancestors — provided the
outcome is `ok` (the model's `escape` = the kernel would follow a link inside the tree). -/
theorem C02_exec_confined (k : ChunkCfg) (keepOf : List FilterSpec → String → Bool) (st st' : DoerSt) (c : Cmd)
    (out : List Resp) (h : execCmd k keepOf st c = .ok st' out) (q : FPath) (hq : st'.fs.get q ≠ st.fs.get q) :
    (∃ root sl, st.root = some (root, sl) ∧ root <+: q ∧ c.mutating = true) ∨
    (∃ root sl, st.root = some (root, sl) ∧ c = .createRootAncestors ∧ q <+: root.dropLast ∧
      st.fs.get q = none ∧ st'.fs.get q = some .folder) := by
  rcases execCmd_effect k keepOf st st' c out h with e | ⟨p, full, -, hf, hm, hc⟩ | ⟨root, sl, hr, hcmd, hall⟩
  · rw [e] at hq; exact absurd rfl hq
  · left
    obtain ⟨root, sl, hr, hpre⟩ := fullOf_prefix hf
    refine ⟨root, sl, hr, ?_, hm⟩
    by_cases hqf : q = full
    · subst hqf; exact hpre
    · exact absurd (hc q hqf) hq
  · right
    rcases hall q with e | ⟨h1, h2, h3⟩
    · exact absurd e hq
    · exact ⟨root, sl, hr, hcmd, h3, h1, h2⟩

/-- read-only commands (everything the source doer is ever sent, C02_src_trace) leave the file system as it is -/
theorem C02_readonly_exec (k : ChunkCfg) (keepOf : List FilterSpec → String → Bool) (st st' : DoerSt) (c : Cmd)
    (out : List Resp) (hc : c.readOnly = true) (h : execCmd k keepOf st c = .ok st' out) : st'.fs = st.fs := by
  rcases execCmd_effect k keepOf st st' c out h with e | ⟨p, full, -, -, hm, -⟩ | ⟨_, _, _, hcmd, _⟩
  · exact e
  · cases c <;> simp_all [Cmd.readOnly, Cmd.mutating]
  · subst hcmd; simp [Cmd.readOnly] at hc

/-- **A whole sync stays inside the destination and never follows a link**: the destination half of a
sync on the file-system model (every destination tree below the root, every source tree) ends `ok` —
no call fails and none passes through a symlink — and every path that does not lie below the doer's
root is as it was — with any filters (`vis`: which relative paths they let through), and then also
every path the filters hide.  (Corollary of `sync_mirror`.) -/
theorem C02_sync_confined {vis : FPath → Bool} {fs0 : FS} {r : FPath} {ld : List (FPath × Node)} {src : FPath → Option SEntry}
    {ls : List (FPath × SEntry)} (hw : DestWF vis fs0 r ld) (hs : SrcWF vis src ls)
    (hsafe : ∀ p c n, (p, Node.folder) ∈ planDel src ld → fs0.get (r ++ (p ++ [c])) = some n → vis (p ++ [c]) = true) :
    ∃ fs', syncDest fs0 r src ls ld = .ok fs' ∧ (∀ q, ¬ r <+: q → fs'.get q = fs0.get q) ∧
      ∀ p, vis p = false → fs'.get (r ++ p) = fs0.get (r ++ p) := by
  obtain ⟨fs', h1, h2, -, -, h5⟩ := sync_mirror hw hs hsafe
  exact ⟨fs', h1, h2, h5⟩

/-- **No run follows a link — successful or failing, with any filters**: for every destination tree, every source tree
and every filter verdict (both listings holding exactly what the filters let through), the destination half of a sync
ends `ok` or with an `err`or, never with `escape` (the outcome the file-system model gives whenever the kernel would pass
through a symlink inside the tree).  No assumption about hidden entries: where `C01_mirror_filtered` needs `hsafe` to
conclude success, this holds without it. -/
theorem C02_sync_never_escapes {vis : FPath → Bool} {fs0 : FS} {r : FPath} {ld : List (FPath × Node)} {src : FPath → Option SEntry}
    {ls : List (FPath × SEntry)} (hw : DestWF vis fs0 r ld) (hs : SrcWF vis src ls) :
    syncDest fs0 r src ls ld ≠ .escape := by
  rcases sync_never_escapes hw hs with ⟨fs', h⟩ | h <;> (rw [h]; intro e; cases e)

/-- … stated on two trees with the model's own (filtered) listings: nothing is assumed but the shape of the trees -/
theorem C02_never_escapes_two_trees (keep : FPath → Bool) (S D : FS) (rs rd : FPath) (fS fD : Nat)
    (hS : SrcTreeOk S rs fS) (hD : D.Wf)
    (hroot : D.get rd = some .folder) (hanc : ∀ k, k < rd.length → D.get (rd.take k) = some .folder)
    (hclosed : ∀ p, p ≠ [] → D.get (rd ++ p) ≠ none → D.get (rd ++ p.dropLast) = some .folder)
    (hfuel : ∀ p, D.get (rd ++ p) ≠ none → p.length ≤ fD) :
    syncDest D rd (srcOfFS S rs) (lsOfFSF keep S rs fS)
      ((listNodesF keep rd D fD rd).map fun e => (e.1.drop rd.length, e.2)) ≠ .escape :=
  C02_sync_never_escapes (destWF_of_listNodesF keep D hD rd hroot hanc hclosed fD hfuel) (srcWF_of_treeF keep S rs fS hS)

end Rj.C02
