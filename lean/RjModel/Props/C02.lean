import RjModel.Lemmas.BossTraces
import RjModel.Generated.Sites
/-! # C02 — the source is never modified; nothing outside the destination is touched
(boss side: which commands each doer can ever be sent) -/
namespace Rj.C02
open Rj

/-- **The source doer is only ever asked to report its root, list entries and read file contents**
— for every scenario: any replies (errors and unexpected variants included), any arrival order of
the listings, any behaviours and prompt answers, dry run or not, any moment at which a destination
error becomes visible. -/
theorem C02_src_trace (w : Wrap) (sc : Scenario) : ∀ c ∈ (run w sc).srcTrace, c.readOnly = true := by
  have A : Allowed sc.dryRun (fun c => c.readOnly = true) (fun _ => True) :=
    ⟨fun _ => rfl, fun _ => rfl, fun _ _ => rfl, fun _ => trivial, fun _ => trivial, fun _ => trivial, fun _ _ _ => trivial⟩
  exact (run_ok w sc A).1

/-- no mutating command is ever sent to the source -/
theorem C02_src_never_mutated (w : Wrap) (sc : Scenario) : ∀ c ∈ (run w sc).srcTrace, c.mutating = false := by
  intro c hc
  have := C02_src_trace w sc c hc
  cases c <;> simp_all [Cmd.readOnly, Cmd.mutating]

/-- **The same on the source text** (extracted on every run): every `send_command` site on the source
handle sends `SetRoot`, `GetEntries` or `GetFileContent`. -/
theorem C02_src_sites :
    ∀ s ∈ Generated.sites, s.handle = "src" → s.variant ∈ ["SetRoot", "GetEntries", "GetFileContent"] := by
  decide

/-- `CreateRootAncestors` — the one command that works outside the destination root — goes to the
destination only, at most once, never in a dry run. -/
theorem C02_ancestors_not_in_dry_run (w : Wrap) (sc : Scenario) (hd : sc.dryRun = true) :
    Cmd.createRootAncestors ∉ (run w sc).destTrace := by
  have A : Allowed sc.dryRun (fun _ => True) (fun c => c ≠ .createRootAncestors) :=
    ⟨fun _ => trivial, fun _ => trivial, fun _ _ => trivial, fun _ => by simp, fun _ => by simp, fun _ => by simp,
     fun h => by simp [hd] at h⟩
  intro h
  exact (run_ok w sc A).2 _ h rfl

def exampleScenario : Scenario where
  srcRoot := "S"
  destRoot := "D"
  dryRun := false
  beh := ⟨.proceed, .proceed, .skip, .proceed, .proceed⟩
  filters := []
  srcReply := .details (some .folder) false '/'
  destReply := .details (some .folder) false '/'
  destReply2 := .other
  events := [.entry .src "f" (.file 5 1), .entry .dest "g" (.file 1 1), .endOf .src, .endOf .dest]
  answers := []
  files := [("f", [([7], false)])]
  errAtPoll := none

/-- Non-vacuity: a run that copies a file and deletes another one; the source sees three commands. -/
example :
    ((run ⟨"^(?:", ")$"⟩ exampleScenario).srcTrace, (run ⟨"^(?:", ")$"⟩ exampleScenario).outcome) =
      ([.setRoot "S", .getEntries [], .getFileContent "f"], .ok) := by
  decide

end Rj.C02
