-- GENERATED from /repo by /verif/extract/extract.py on every run. Do not edit.
namespace Rj.Generated
/-- assignments to behaviour fields in boss_sync.rs: (field, "remembered" | "other:...") in source order -/
def behaviourWrites : List (String × String) := [("dest_entry_needs_deleting_behaviour", "remembered"), ("dest_file_newer_behaviour", "remembered"), ("dest_file_older_behaviour", "remembered"), ("files_same_time_behaviour", "remembered")]
end Rj.Generated
