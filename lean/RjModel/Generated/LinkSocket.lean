-- GENERATED from /repo by /verif/extract/extract.py on every run. Do not edit.
namespace Rj.Generated
/-- no read/write time-out and no non-blocking mode is set on any socket -/
def linkSocketPlain : Bool := true
def linkSocketOptions : List String := []
/-- the durations (whole seconds) that occur in those files: candidates for a time-out to wait out when searching for a failing input -/
def durationsSeen : List Nat := [0]
end Rj.Generated
