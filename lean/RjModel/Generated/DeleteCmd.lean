-- GENERATED from /repo by /verif/extract/extract.py on every run. Do not edit.
import RjModel.Model.Boss
namespace Rj.Generated
def deleteCmdTranslated : Bool := true
/-- the command `delete_dest_entry` builds for a destination entry, translated -/
def deleteCmdSrc (p : String) (d : Details) : Cmd :=
  (match d with | .file _ _ => .deleteFile p | .folder => .deleteFolder p | .symlink kind _ => .deleteSymlink p kind)
end Rj.Generated
