-- GENERATED from /repo by /verif/extract/extract.py on every run. Do not edit.
import RjModel.Model.Planner
namespace Rj.Generated
/-- both functions were inside the subset the translator (extract/translate.py) handles -/
def decisionsTranslated : Bool := true
/-- `needs_delete` of boss_sync.rs, translated -/
def needsDeleteSrc (c : PCfg) (s d : Details) : Bool :=
  (match s with | .file _ _ => (match d with | .file _ _ => false | _ => true) | .folder => (match d with | .folder => false | _ => true) | .symlink src_kind src_target => (match d with | .symlink dest_kind dest_target => (if (decide (src_target ≠ dest_target)) then true else (if ((decide (src_kind ≠ dest_kind)) && c.destDiff) then true else false)) | _ => true))
/-- `needs_copy` of boss_sync.rs, translated (outer `none`: the `panic!("Wrong entry type")` arm) -/
def needsCopySrc (c : PCfg) (s d : Details) : Option (Option CopyReason) :=
  (match s with | .file src_modified_time _ => (((match d with | .file modified_time _ => (some modified_time) | _ => none)).bind fun dest_modified_time => (if src_modified_time = dest_modified_time then (if c.sameTimeSkip then (some none) else (some (some .sameTime))) else if src_modified_time > dest_modified_time then (some (some .destOlder)) else (some (some .destNewer)))) | .folder => (some none) | .symlink _ _ => (some none))
end Rj.Generated
