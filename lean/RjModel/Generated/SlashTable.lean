-- GENERATED from /repo by /verif/extract/extract.py on every run. Do not edit.
import RjModel.Model.Root
namespace Rj.Generated
def slashTableRecognised : Bool := true
def slashTable : List SlashRow := [
  ⟨.none, false, [.x, .x, .x, .x, .x, .x]⟩,
  ⟨.none, true, [.x, .x, .x, .x, .x, .x]⟩,
  ⟨.leaf, false, [.b false, .ba, .b false, .x, .b true, .ba]⟩,
  ⟨.leaf, true, [.x, .x, .x, .x, .x, .x]⟩,
  ⟨.folder, false, [.b false, .b false, .b true, .x, .b false, .b false]⟩,
  ⟨.folder, true, [.b false, .b false, .b true, .x, .b false, .b false]⟩
]
end Rj.Generated
