-- GENERATED from /repo by /verif/extract/extract.py on every run. Do not edit.
import RjModel.Model.Channel
namespace Rj.Generated
def channelFeatures : ChanFeatures := ⟨true, true, true, true, true, true, true, true, true⟩
end Rj.Generated
