-- GENERATED from /repo by /verif/extract/extract.py on every run. Do not edit.
import RjModel.Model.Shutdown
namespace Rj.Generated
def shutdownFeatures : ShutFeatures := ⟨true, true, true⟩
end Rj.Generated
