-- GENERATED from /repo by /verif/extract/extract.py on every run. Do not edit.
namespace Rj.Generated
def tryFromTranslated : Bool := true
/-- one round of the loop of `RootRelativePath::try_from`: `none` = the component is refused -/
def tryFromStepSrc (result cs : List Char) : Option (List Char) :=
  if (cs.contains '/' || cs.contains '\\') then none
  else some ((if !result.isEmpty then result ++ ['/'] else result) ++ cs)
/-- the loop over the components (the path is relative; every component is valid UTF-8) -/
def tryFromSrc (comps : List (List Char)) : Option (List Char) := comps.foldlM tryFromStepSrc []
end Rj.Generated
