-- GENERATED from /repo by /verif/extract/extract.py on every run. Do not edit.
namespace Rj.Generated
def filterWrapPre : String := "^(?:"
def filterWrapPost : String := ")$"
def channelCapacity : Option Nat := (some 104857600)
def firstChunk : Option Nat := (some 4096)
def chunkGrowth : Option Nat := (some 2)
def maxChunk : Option Nat := (some 4194304)
def smallBuf : Option Nat := (some 32)
def frameBuffer : Option Nat := (some 8388608)
def sendNonceStep : Option Nat := (some 2)
def recvNonceStep : Option Nat := (some 2)
def bossSendParity : Option Nat := (some 0)
def bossRecvParity : Option Nat := (some 1)
def doerSendParity : Option Nat := (some 1)
def doerRecvParity : Option Nat := (some 0)
def walkResultBound : Option Nat := (some 1000)
def bossExitCodes : List Nat := [10, 11, 12, 18, 19]
end Rj.Generated
