-- GENERATED from /repo by /verif/extract/extract.py on every run. Do not edit.
namespace Rj.Generated
def rootRelTranslated : Bool := true
/-- `RootRelativePath::is_root`, translated (`k`: the inner string) -/
def isRootSrc (k : String) : Bool :=
  (decide (k = ""))
/-- `RootRelativePath::is_inside`, translated -/
def isInsideSrc (k folder : String) : Bool :=
  (if (isRootSrc folder) then (!(isRootSrc k)) else ((folder ++ "/").isPrefixOf k))
end Rj.Generated
