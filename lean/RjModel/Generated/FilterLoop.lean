-- GENERATED from /repo by /verif/extract/extract.py on every run. Do not edit.
import RjModel.Model.Regex
namespace Rj.Generated
def applyFiltersSkel : ApplyFiltersSkel := ⟨true, false, true, true, true, false, true⟩
end Rj.Generated
