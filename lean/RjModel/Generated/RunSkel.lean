-- GENERATED from /repo by /verif/extract/extract.py on every run. Do not edit.
import RjModel.Model.Run
namespace Rj.Generated
/-- the function has exactly the recognised shape: two launches, one loop over all syncs with one sync call, no other exits -/
def runSkelRecognised : Bool := true
def runSkel : Run.RunSkel := ⟨10, 11, true, (some 12), true, true, true⟩
end Rj.Generated
