-- GENERATED from /repo by /verif/extract/extract.py on every run. Do not edit.
import RjModel.Model.Walker
namespace Rj.Generated
def walkFeatures : WalkFeatures := ⟨true, true, true, true, true, true⟩
end Rj.Generated
