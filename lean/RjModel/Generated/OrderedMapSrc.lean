-- GENERATED from /repo by /verif/extract/extract.py on every run. Do not edit.
import RjModel.Model.OMap
namespace Rj.Generated
variable {V : Type}
def orderedMapTranslated : Bool := true
def omAdd (m : OMap V) (k : String) (v : V) : Option (OMap V) :=
  ((some (OMap.mk (m.vec ++ [k]) m.map)).bind fun (m : OMap V) => ((some (OMap.mk m.vec ((k, v) :: erase m.map k))).bind fun (m : OMap V) => some m))
def omRemove (m : OMap V) (k : String) : Option (OMap V) :=
  ((some (OMap.mk m.vec (erase m.map k))).bind fun (m : OMap V) => some m)
def omUpdate (m : OMap V) (k : String) (new_value : V) : Option (OMap V) :=
  (((if (lookup m.map k).isSome then some (OMap.mk m.vec ((k, new_value) :: erase m.map k)) else none)).bind fun (m : OMap V) => some m)
def omReverse (m : OMap V) : Option (OMap V) :=
  ((some (OMap.mk m.vec.reverse m.map)).bind fun (m : OMap V) => some m)
def omLookup (m : OMap V) (k : String) : Option V :=
  lookup m.map k
def omIter (m : OMap V) : List (String × V) :=
  m.vec.filterMap fun k => (lookup m.map k).bind fun v => some (k, v)
end Rj.Generated
