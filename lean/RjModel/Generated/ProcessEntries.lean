-- GENERATED from /repo by /verif/extract/extract.py on every run. Do not edit.
import RjModel.Generated.Decisions
namespace Rj.Generated
/-- both functions were inside the subset the statement translator handles -/
def processTranslated : Bool := true
/-- `process_src_entry` of boss_sync.rs, translated (`none`: a panic) -/
def processSrcEntrySrc (c : PCfg) (s : PState) (p : String) (src_entry : Details) : Option PState :=
  (((match s.dst.get p with | none => (some { s with cpy := s.cpy.add p (src_entry, .notOnDest) }) | some dest_entry => (if needsDeleteSrc c src_entry dest_entry then ((((s.del.update p (dest_entry, .incompatible)).map fun m => { s with del := m })).bind fun s => (some { s with cpy := s.cpy.add p (src_entry, .notOnDest) })) else (((some { s with del := s.del.remove p })).bind fun s => (match needsCopySrc c src_entry dest_entry with | none => none | some (some r) => (some { s with cpy := s.cpy.add p (src_entry, r) }) | some none => (some s)))))).bind fun s => (some { s with src := s.src.add p src_entry }))
/-- `process_dest_entry` of boss_sync.rs, translated (`none`: a panic) -/
def processDestEntrySrc (c : PCfg) (s : PState) (p : String) (dest_entry : Details) : Option PState :=
  (((some { s with dst := s.dst.add p dest_entry })).bind fun s => (match s.src.get p with | none => (some { s with del := s.del.add p (dest_entry, .notOnSource) }) | some src_entry => (if needsDeleteSrc c src_entry dest_entry then (some { s with del := s.del.add p (dest_entry, .incompatible) }) else (match needsCopySrc c src_entry dest_entry with | none => none | some (some r) => ((s.cpy.update p (src_entry, r)).map fun m => { s with cpy := m }) | some none => (some { s with cpy := s.cpy.remove p })))))
end Rj.Generated
