-- GENERATED from /repo by /verif/extract/extract.py on every run. Do not edit.
namespace Rj.Generated
structure PanicGroup where
  file : String
  fn : String
  kind : String
  count : Nat
  classified : Bool
  deriving DecidableEq, Repr
def panicGroups : List PanicGroup := [
  ⟨"boss_deploy", "deploy_to_remote", "panic", 1, true⟩,
  ⟨"boss_deploy", "run_process_with_live_output", "unwrap", 4, true⟩,
  ⟨"boss_frontend", "boss_main", "expect", 1, true⟩,
  ⟨"boss_frontend", "boss_main", "panic", 1, true⟩,
  ⟨"boss_frontend", "execute_spec", "unwrap", 1, true⟩,
  ⟨"boss_frontend", "from_env", "expect", 5, true⟩,
  ⟨"boss_frontend", "resolve_prompt", "expect", 2, true⟩,
  ⟨"boss_frontend", "resolve_spec", "unwrap", 2, true⟩,
  ⟨"boss_frontend", "verif_set_prompt_responses", "expect", 6, true⟩,
  ⟨"boss_launch", "launch_doer_via_ssh", "unwrap", 5, true⟩,
  ⟨"boss_launch", "setup_comms", "unwrap", 1, true⟩,
  ⟨"boss_launch", "shutdown", "expect", 3, true⟩,
  ⟨"boss_launch", "shutdown", "panic", 1, true⟩,
  ⟨"boss_progress", "all_work_sent", "debug_assert", 1, true⟩,
  ⟨"boss_progress", "background_updater", "debug_assert", 1, true⟩,
  ⟨"boss_progress", "get_progress_marker", "debug_assert", 2, true⟩,
  ⟨"boss_progress", "new", "expect", 1, true⟩,
  ⟨"boss_progress", "new", "unwrap", 1, true⟩,
  ⟨"boss_progress", "update_bar_limited", "debug_assert", 1, true⟩,
  ⟨"boss_sync", "check_dest_root_delete_ok", "panic", 1, true⟩,
  ⟨"boss_sync", "confirm_actions", "panic", 4, true⟩,
  ⟨"boss_sync", "get_root_details", "unwrap", 1, true⟩,
  ⟨"boss_sync", "needs_copy", "panic", 1, true⟩,
  ⟨"boss_sync", "query_entries", "panic", 1, true⟩,
  ⟨"boss_sync", "show_post_sync_stats", "unwrap", 4, true⟩,
  ⟨"boss_sync", "validate_trailing_slash", "unwrap", 2, true⟩,
  ⟨"doer", "doer_main", "unwrap", 1, true⟩,
  ⟨"doer", "exec_command", "unwrap", 18, true⟩,
  ⟨"doer", "filter_func", "expect", 1, true⟩,
  ⟨"doer", "handle_set_root", "unwrap", 1, true⟩,
  ⟨"encrypted_comms", "join_with_err_log", "expect", 2, true⟩,
  ⟨"encrypted_comms", "new", "expect", 4, true⟩,
  ⟨"encrypted_comms", "receive", "assert", 1, true⟩,
  ⟨"encrypted_comms", "receive", "unwrap", 1, true⟩,
  ⟨"encrypted_comms", "send", "assert", 1, true⟩,
  ⟨"encrypted_comms", "send", "unwrap", 2, true⟩,
  ⟨"exe_utils", "add_section_to_pe", "assert", 1, true⟩,
  ⟨"exe_utils", "from_bytes", "unwrap", 1, true⟩,
  ⟨"histogram", "fmt", "unwrap", 2, true⟩,
  ⟨"memory_bound_channel", "send", "expect", 1, true⟩,
  ⟨"ordered_map", "update", "unwrap", 1, true⟩,
  ⟨"parallel_walk_dir", "parallel_walk_dir", "expect", 2, true⟩,
  ⟨"parallel_walk_dir", "worker_main", "assert", 1, true⟩,
  ⟨"parallel_walk_dir", "worker_main", "expect", 3, true⟩
]
def preEpochRejected : Bool := true
end Rj.Generated
