-- GENERATED from /repo by /verif/extract/extract.py on every run. Do not edit.
namespace Rj.Generated
structure SessionFeatures where
  doerAcceptsOnce : Bool
  doerOneLink : Bool
  doerReadsKeyOnce : Bool
  keyGeneratedPerLaunch : Bool
  deriving DecidableEq, Repr
def sessionFeatures : SessionFeatures := ⟨true, true, true, true⟩
end Rj.Generated
