-- GENERATED from /repo by /verif/extract/extract.py on every run. Do not edit.
namespace Rj.Generated
structure Site where
  file : String
  fn : String
  handle : String
  variant : String
  dryGuarded : Bool
  deriving DecidableEq, Repr
def sites : List Site := [
  ⟨"src/boss_sync.rs", "send_progress_marker_limited", "dest", "Marker", false⟩,
  ⟨"src/boss_sync.rs", "sync_impl", "dest", "CreateRootAncestors", true⟩,
  ⟨"src/boss_sync.rs", "sync_impl", "dest", "Marker", false⟩,
  ⟨"src/boss_sync.rs", "sync_impl", "dest", "Marker", false⟩,
  ⟨"src/boss_sync.rs", "get_root_details", "src", "SetRoot", false⟩,
  ⟨"src/boss_sync.rs", "get_root_details", "dest", "SetRoot", false⟩,
  ⟨"src/boss_sync.rs", "get_root_details", "dest", "SetRoot", false⟩,
  ⟨"src/boss_sync.rs", "query_entries", "src", "GetEntries", false⟩,
  ⟨"src/boss_sync.rs", "query_entries", "dest", "GetEntries", false⟩,
  ⟨"src/boss_sync.rs", "copy_entry", "dest", "CreateFolder", true⟩,
  ⟨"src/boss_sync.rs", "copy_entry", "dest", "CreateSymlink", true⟩,
  ⟨"src/boss_sync.rs", "copy_file", "src", "GetFileContent", true⟩,
  ⟨"src/boss_sync.rs", "copy_file", "dest", "CreateOrUpdateFile", true⟩,
  ⟨"src/boss_launch.rs", "shutdown", "self", "Shutdown", false⟩,
  ⟨"src/boss_launch.rs", "shutdown", "self", "ProfilingTimeSync", false⟩,
  ⟨"src/boss_launch.rs", "shutdown", "self", "Shutdown", false⟩,
  ⟨"src/boss_sync.rs", "delete_dest_entry", "dest", "DeleteFile", true⟩,
  ⟨"src/boss_sync.rs", "delete_dest_entry", "dest", "DeleteFolder", true⟩,
  ⟨"src/boss_sync.rs", "delete_dest_entry", "dest", "DeleteSymlink", true⟩
]
end Rj.Generated
