-- GENERATED from /repo by /verif/extract/extract.py on every run. Do not edit.
namespace Rj.Generated
/-- guard of the drive-letter arm of RemotePathDesc::from_str (white space removed, the two binders renamed A and B), and the number of `split_once` calls -/
def pathDescDriveGuard : String := "A.len()==1&&(B.is_empty()||B.starts_with('\\\\'))"
def pathDescSplits : Nat := 2
end Rj.Generated
