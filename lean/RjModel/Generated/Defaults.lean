-- GENERATED from /repo by /verif/extract/extract.py on every run. Do not edit.
import RjModel.Model.Settings
namespace Rj.Generated
def fieldRules : List FieldRule := [
  { name := "dest_file_newer_behaviour", flag := "dest_file_newer", default := .prompt, guardNe := (some .skip), mapPrompt := .prompt, mapError := .error, mapSkip := .skip, mapProceed := .proceed, allBeforeFlag := true },
  { name := "dest_file_older_behaviour", flag := "dest_file_older", default := .proceed, guardNe := (some .skip), mapPrompt := .prompt, mapError := .error, mapSkip := .skip, mapProceed := .proceed, allBeforeFlag := true },
  { name := "files_same_time_behaviour", flag := "files_same_time", default := .skip, guardNe := (some .skip), mapPrompt := .prompt, mapError := .error, mapSkip := .skip, mapProceed := .proceed, allBeforeFlag := true },
  { name := "dest_entry_needs_deleting_behaviour", flag := "dest_entry_needs_deleting", default := .proceed, guardNe := (some .skip), mapPrompt := .prompt, mapError := .error, mapSkip := .skip, mapProceed := .proceed, allBeforeFlag := true },
  { name := "dest_root_needs_deleting_behaviour", flag := "dest_root_needs_deleting", default := .prompt, guardNe := (some .skip), mapPrompt := .prompt, mapError := .error, mapSkip := .skip, mapProceed := .proceed, allBeforeFlag := true }
]
def deployDefault : DeployBeh := .prompt
def filtersReplace : Bool := true
def deployFlagOverrides : Bool := true
end Rj.Generated
