import RjModel.Lemmas.PlannerInv
/-! The two action lists of the planner *as lists* (iteration order included), for every arrival order. -/
namespace Rj

/-- iteration of an ordered map whose key vector is a sub-sequence of a duplicate-free list `L` that holds every live key:
it is `L` filtered by what the map holds -/
theorem OMap.iter_eq_filterMap {V : Type} (m : OMap V) : ∀ (vec L : List String), vec.Sublist L → L.Nodup →
    (∀ k, k ∈ L → m.get k ≠ none → k ∈ vec) →
    vec.filterMap (fun k => (m.get k).map (fun v => (k, v))) = L.filterMap (fun k => (m.get k).map (fun v => (k, v))) := by
  intro vec L hs
  induction hs with
  | slnil => intros; rfl
  | @cons v' L' a hs' ih =>
    intro hnd hk
    have hnd' := (List.nodup_cons.mp hnd)
    have ha : m.get a = none := by
      cases h : m.get a with
      | none => rfl
      | some x =>
        have := hk a (by simp) (by simp [h])
        exact absurd (hs'.subset this) hnd'.1
    rw [List.filterMap_cons, ha]
    simp only [Option.map_none]
    exact ih hnd'.2 (fun k hkL hg => hk k (by simp [hkL]) hg)
  | @cons_cons v' L' a hs' ih =>
    intro hnd hk
    have hnd' := (List.nodup_cons.mp hnd)
    rw [List.filterMap_cons, List.filterMap_cons]
    have := ih hnd'.2 (fun k hkL hg => by
      have h1 := hk k (by simp [hkL]) hg
      rcases List.mem_cons.mp h1 with e | h2
      · subst e; exact absurd hkL hnd'.1
      · exact h2)
    rw [this]

/-- every live key of the two action maps is in its key vector -/
def KeysInVec {V : Type} (m : OMap V) : Prop := ∀ k, m.get k ≠ none → k ∈ m.vec

theorem keysInVec_empty {V : Type} : KeysInVec (OMap.empty : OMap V) := by
  intro k h; simp at h

theorem keysInVec_add {V : Type} (m : OMap V) (k : String) (v : V) (h : KeysInVec m) : KeysInVec (m.add k v) := by
  intro k' hg
  rw [OMap.get_add] at hg
  simp only [OMap.vec_add, List.mem_append, List.mem_singleton]
  by_cases e : k' = k
  · right; exact e
  · left; simp only [e, ↓reduceIte] at hg; exact h k' hg

theorem keysInVec_remove {V : Type} (m : OMap V) (k : String) (h : KeysInVec m) : KeysInVec (m.remove k) := by
  intro k' hg
  rw [OMap.get_remove] at hg
  simp only [OMap.vec_remove]
  by_cases e : k' = k
  · simp [e] at hg
  · simp only [e, ↓reduceIte] at hg; exact h k' hg

theorem keysInVec_update {V : Type} (m m' : OMap V) (k : String) (v : V) (hu : m.update k v = some m') (h : KeysInVec m) : KeysInVec m' := by
  intro k' hg
  rw [OMap.get_update _ _ _ _ _ hu] at hg
  rw [OMap.vec_update _ _ _ _ hu]
  by_cases e : k' = k
  · subst e
    unfold OMap.update at hu
    split at hu
    · next hs => exact h k' (by intro hn; simp [hn] at hs)
    · cases hu
  · simp only [e, ↓reduceIte] at hg; exact h k' hg

theorem pstep_keysInVec {c : PCfg} {s s' : PState} {e : Ev} (h : pstep c s e = some s')
    (hd : KeysInVec s.del) (hc : KeysInVec s.cpy) : KeysInVec s'.del ∧ KeysInVec s'.cpy := by
  cases e with
  | src p d =>
    simp only [pstep] at h
    split at h
    · cases h; exact ⟨hd, keysInVec_add _ _ _ hc⟩
    · split at h
      · simp only [Option.map_eq_some_iff] at h
        obtain ⟨del', hu, rfl⟩ := h
        exact ⟨keysInVec_update _ _ _ _ hu hd, keysInVec_add _ _ _ hc⟩
      · split at h <;> cases h
        · exact ⟨keysInVec_remove _ _ hd, keysInVec_add _ _ _ hc⟩
        · exact ⟨keysInVec_remove _ _ hd, hc⟩
  | dst p d =>
    simp only [pstep] at h
    split at h
    · cases h; exact ⟨keysInVec_add _ _ _ hd, hc⟩
    · split at h
      · cases h; exact ⟨keysInVec_add _ _ _ hd, hc⟩
      · split at h
        · simp only [Option.map_eq_some_iff] at h
          obtain ⟨cpy', hu, rfl⟩ := h
          exact ⟨hd, keysInVec_update _ _ _ _ hu hc⟩
        · cases h; exact ⟨hd, keysInVec_remove _ _ hc⟩

theorem prun_keysInVec (c : PCfg) (evs : List Ev) : ∀ (s s' : PState), prun c s evs = some s' →
    KeysInVec s.del → KeysInVec s.cpy → KeysInVec s'.del ∧ KeysInVec s'.cpy := by
  induction evs with
  | nil => intro s s' h hd hc; simp only [prun] at h; cases h; exact ⟨hd, hc⟩
  | cons e es ih =>
    intro s s' h hd hc
    simp only [prun] at h
    cases h1 : pstep c s e with
    | none => simp [h1] at h
    | some s1 =>
      simp only [h1, Option.bind_some] at h
      obtain ⟨a, b⟩ := pstep_keysInVec h1 hd hc
      exact ih s1 s' h a b

theorem init_inv' (c : PCfg) : Inv c PState.init := by
  constructor <;> intro p <;> simp [PState.init, delSpec, cpySpec]

theorem fresh_init' (evs : List Ev) (hs : ((srcOf evs).map (·.1)).Nodup) (hd : ((dstOf evs).map (·.1)).Nodup) :
    FreshFrom PState.init evs :=
  ⟨hs, hd, by intro p _; rfl, by intro p _; rfl⟩

/-- **The two action lists, as lists**: after any arrival sequence with unique paths per side, iterating `to_delete`
in reversed order gives exactly the destination listing reversed and filtered by the closed form (with the closed form's
value), and iterating `to_copy` gives the source listing filtered by the closed form - whatever the interleaving. -/
theorem plan_lists (c : PCfg) (evs : List Ev)
    (hs : ((srcOf evs).map (·.1)).Nodup) (hd : ((dstOf evs).map (·.1)).Nodup) :
    ∃ s, prun c PState.init evs = some s ∧
      s.del.reverseOrder.iter = (((dstOf evs).map (·.1)).reverse).filterMap (fun k =>
          (delSpec c (lookup (srcOf evs).reverse) (lookup (dstOf evs).reverse) k).map (fun v => (k, v))) ∧
      s.cpy.iter = ((srcOf evs).map (·.1)).filterMap (fun k =>
          (cpySpec c (lookup (srcOf evs).reverse) (lookup (dstOf evs).reverse) k).map (fun v => (k, v))) := by
  obtain ⟨s, h, hi, hsg, hdg⟩ := prun_inv c evs PState.init (init_inv' c) (fresh_init' evs hs hd)
  have e1 : s.src.get = lookup (srcOf evs).reverse := by
    funext q; rw [hsg q]; cases lookup (srcOf evs).reverse q <;> rfl
  have e2 : s.dst.get = lookup (dstOf evs).reverse := by
    funext q; rw [hdg q]; cases lookup (dstOf evs).reverse q <;> rfl
  obtain ⟨⟨X, hX, sX⟩, ⟨Y, hY, sY⟩⟩ := prun_vecs c evs PState.init s h
  simp only [PState.init, OMap.empty, List.nil_append] at hX hY
  obtain ⟨kd, kc⟩ := prun_keysInVec c evs PState.init s h keysInVec_empty keysInVec_empty
  refine ⟨s, h, ?_, ?_⟩
  · have hdel : ∀ k, s.del.get k = delSpec c (lookup (srcOf evs).reverse) (lookup (dstOf evs).reverse) k := by
      intro k; rw [hi.1 k, e1, e2]
    have := OMap.iter_eq_filterMap s.del X ((dstOf evs).map (·.1)) sX hd (fun k _ hg => by rw [← hX]; exact kd k hg)
    unfold OMap.iter
    simp only [OMap.reverseOrder, hX]
    show X.reverse.filterMap (fun k => (s.del.get k).map fun v => (k, v)) = _
    rw [List.filterMap_reverse, this, List.filterMap_reverse]
    simp only [hdel]
  · have hcpy : ∀ k, s.cpy.get k = cpySpec c (lookup (srcOf evs).reverse) (lookup (dstOf evs).reverse) k := by
      intro k; rw [hi.2 k, e1, e2]
    have := OMap.iter_eq_filterMap s.cpy Y ((srcOf evs).map (·.1)) sY hs (fun k _ hg => by rw [← hY]; exact kc k hg)
    unfold OMap.iter
    rw [hY, this]
    simp only [hcpy]

end Rj
