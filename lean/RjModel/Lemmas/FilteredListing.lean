import RjModel.Lemmas.ListingLemmas
/-! The listing under filters (`listNodesF`): it reports exactly the entries that the walk can reach — those all
of whose prefixes below the root are kept (`visOf`) — parents first.  So the assumptions of `sync_mirror` about
filtered listings (`DestWF vis`, `SrcWF vis`) are met by the model's own filtered listing. -/
namespace Rj
open FS

theorem visOf_iff {keep : FPath → Bool} {p : FPath} :
    visOf keep p = true ↔ ∀ k, 0 < k → k ≤ p.length → keep (p.take k) = true := by
  simp only [visOf, List.all_eq_true, List.mem_range]
  constructor
  · intro h k hk0 hk
    have := h (k - 1) (by omega)
    rwa [Nat.sub_add_cancel hk0] at this
  · intro h k hk
    exact h (k + 1) (by omega) (by omega)

theorem visOf_take {keep : FPath → Bool} {p : FPath} (k : Nat) (h : visOf keep p = true) :
    visOf keep (p.take k) = true := by
  rw [visOf_iff] at h ⊢
  intro j hj0 hj
  rw [List.length_take] at hj
  rw [List.take_take]
  have : min j k = j := by omega
  rw [this]
  exact h j hj0 (by omega)

theorem flatMap_sublist {α β : Type} (l : List α) (g h : α → List β) (hs : ∀ a ∈ l, (g a).Sublist (h a)) :
    (l.flatMap g).Sublist (l.flatMap h) := by
  induction l with
  | nil => simp
  | cons a rest ih =>
    simp only [List.flatMap_cons]
    exact List.Sublist.append (hs a (by simp)) (ih fun b hb => hs b (List.mem_cons_of_mem _ hb))

/-- the filtered listing is a sub-list of the unfiltered one (same order, entries left out) -/
theorem listNodesF_sublist (keep : FPath → Bool) (r : FPath) (fs : FS) (f : Nat) (dir : FPath) :
    (listNodesF keep r fs f dir).Sublist (listNodes fs f dir) := by
  induction f generalizing dir with
  | zero => simp [listNodesF, listNodes]
  | succ f ih =>
    simp only [listNodesF, listNodes]
    apply flatMap_sublist
    intro e _
    split
    · apply List.Sublist.cons_cons
      split
      · exact ih e.1
      · exact List.Sublist.refl _
    · exact List.nil_sublist _

/-- whatever the filtered listing reports lies beneath kept entries only -/
theorem listNodesF_kept (keep : FPath → Bool) (r : FPath) (fs : FS) (hw : fs.Wf) (f : Nat) (dir : FPath)
    (p : FPath) (n : Node) (h : (p, n) ∈ listNodesF keep r fs f dir) :
    ∀ k, dir.length < k → k ≤ p.length → keep ((p.take k).drop r.length) = true := by
  induction f generalizing dir with
  | zero => simp [listNodesF] at h
  | succ f ih =>
    simp only [listNodesF, List.mem_flatMap] at h
    obtain ⟨e, he, hin⟩ := h
    obtain ⟨-, hene, hed⟩ := mem_childrenOf.mp he
    have hlen : e.1.length = dir.length + 1 := by rw [child_shape hene hed]; simp
    split at hin
    next hk =>
      rcases List.mem_cons.mp hin with h1 | h1
      · have hp : p = e.1 := by rw [← h1]
        subst hp
        intro k hk1 hk2
        have : k = e.1.length := by omega
        subst this
        rwa [List.take_length]
      · split at h1
        · intro k hk1 hk2
          have hpre : e.1 <+: p :=
            (listNodes_sound fs hw f e.1 p n ((listNodesF_sublist keep r fs f e.1).subset h1)).2.1
          by_cases hke : k = e.1.length
          · subst hke
            have : p.take e.1.length = e.1 := List.prefix_iff_eq_take.mp hpre |>.symm
            rwa [this]
          · exact ih e.1 h1 k (by omega) hk2
        · simp at h1
    next => simp at hin

/-- completeness under filters: a node below `dir` is reported when its ancestors up to `dir` are folders and it and
all those ancestors are kept -/
theorem listNodesF_complete (keep : FPath → Bool) (r : FPath) (fs : FS) (f : Nat) (dir : FPath) (rest : FPath) (n : Node)
    (hrest : rest ≠ []) (hlen : rest.length ≤ f)
    (hget : fs.get (dir ++ rest) = some n)
    (hfold : ∀ k, 0 < k → k < rest.length → fs.get (dir ++ rest.take k) = some .folder)
    (hkeep : ∀ k, 0 < k → k ≤ rest.length → keep ((dir ++ rest.take k).drop r.length) = true) :
    (dir ++ rest, n) ∈ listNodesF keep r fs f dir := by
  induction f generalizing dir rest with
  | zero =>
    have : rest.length = 0 := by omega
    exact absurd (List.length_eq_zero_iff.mp this) hrest
  | succ f ih =>
    cases rest with
    | nil => exact absurd rfl hrest
    | cons c rest' =>
      simp only [listNodesF, List.mem_flatMap]
      have hk1 := hkeep 1 (by omega) (by simp)
      simp only [List.take_succ_cons, List.take_zero] at hk1
      cases rest' with
      | nil =>
        have hne : dir ++ [c] ≠ [] := by simp
        have hm : (dir ++ [c], n) ∈ fs.nodes := by
          simp only [FS.get, hne, ↓reduceIte] at hget
          exact mem_of_lookup _ _ _ hget
        refine ⟨(dir ++ [c], n), mem_childrenOf.mpr ⟨hm, hne, by simp⟩, ?_⟩
        simp [hk1]
      | cons c2 rest'' =>
        have hc := hfold 1 (by omega) (by simp)
        simp only [List.take_succ_cons, List.take_zero] at hc
        have hne : dir ++ [c] ≠ [] := by simp
        have hm : (dir ++ [c], Node.folder) ∈ fs.nodes := by
          simp only [FS.get, hne, ↓reduceIte] at hc
          exact mem_of_lookup _ _ _ hc
        refine ⟨(dir ++ [c], .folder), mem_childrenOf.mpr ⟨hm, hne, by simp⟩, ?_⟩
        simp only [hk1, ↓reduceIte, List.mem_cons]
        right
        have e1 : dir ++ c :: c2 :: rest'' = (dir ++ [c]) ++ (c2 :: rest'') := by simp
        rw [e1]
        apply ih (dir ++ [c]) (c2 :: rest'') (by simp) (by simp at hlen ⊢; omega)
        · rw [← e1]; exact hget
        · intro k hk0 hk
          have := hfold (k + 1) (by omega) (by simp at hk ⊢; omega)
          simpa [List.take_succ_cons] using this
        · intro k hk0 hk
          have := hkeep (k + 1) (by omega) (by simp at hk ⊢; omega)
          simpa [List.take_succ_cons] using this

/-- **The filtered listing satisfies the assumptions of `sync_mirror`** with `vis := visOf keep`. -/
theorem destWF_of_listNodesF (keep : FPath → Bool) (fs : FS) (hw : fs.Wf) (r : FPath)
    (hroot : fs.get r = some .folder) (hanc : ∀ k, k < r.length → fs.get (r.take k) = some .folder)
    (hclosed : ∀ p, p ≠ [] → fs.get (r ++ p) ≠ none → fs.get (r ++ p.dropLast) = some .folder)
    (f : Nat) (hfuel : ∀ p, fs.get (r ++ p) ≠ none → p.length ≤ f) :
    DestWF (visOf keep) fs r ((listNodesF keep r fs f r).map fun e => (e.1.drop r.length, e.2)) := by
  refine ⟨hroot, hanc, hclosed, ?_, ?_⟩
  · intro p n
    constructor
    · intro h
      obtain ⟨e, he, heq⟩ := List.mem_map.mp h
      obtain ⟨q, m⟩ := e
      simp only [Prod.mk.injEq] at heq
      obtain ⟨h1, h2⟩ := heq
      subst h2
      obtain ⟨g1, ⟨t, ht⟩, g3, -⟩ := listNodes_sound fs hw f r q m ((listNodesF_sublist keep r fs f r).subset he)
      have hk := listNodesF_kept keep r fs hw f r q m he
      subst ht
      simp only [List.drop_left] at h1
      subst h1
      refine ⟨?_, ?_, g1⟩
      · intro e1; subst e1; simp at g3
      · rw [visOf_iff]
        intro k hk0 hkl
        have := hk (r.length + k) (by omega) (by simp; omega)
        have e2 : (r ++ t).take (r.length + k) = r ++ t.take k := by
          rw [List.take_append]
          simp [List.take_of_length_le]
        rwa [e2, List.drop_left] at this
    · intro ⟨hp, hv, hg⟩
      have hfold : ∀ k, 0 < k → k < p.length → fs.get (r ++ p.take k) = some .folder := by
        intro k _ hk
        exact prefixes_folders (fun q => fs.get (r ++ q)) Node.folder (fun q hq hq' => hclosed q hq hq') p (by rw [hg]; simp) k hk
      rw [visOf_iff] at hv
      have := listNodesF_complete keep r fs f r p n hp (hfuel p (by rw [hg]; simp)) hg hfold
        (fun k hk0 hk => by rw [List.drop_left]; exact hv k hk0 hk)
      exact List.mem_map.mpr ⟨(r ++ p, n), this, by simp⟩
  · rw [List.pairwise_map]
    have hpf := (listNodes_parentFirst fs hw f r).sublist (listNodesF_sublist keep r fs f r)
    refine hpf.imp_of_mem ?_
    intro a b ha hb hnp hpre
    obtain ⟨-, ⟨ta, hta⟩, -, -⟩ := listNodes_sound fs hw f r a.1 a.2 ((listNodesF_sublist keep r fs f r).subset ha)
    obtain ⟨-, ⟨tb, htb⟩, -, -⟩ := listNodes_sound fs hw f r b.1 b.2 ((listNodesF_sublist keep r fs f r).subset hb)
    apply hnp
    rw [← hta, ← htb] at hpre ⊢
    simp only [List.drop_left] at hpre
    exact (List.prefix_append_right_inj r).mpr hpre

end Rj

namespace Rj
open FS

/-- the filtered source listing satisfies `SrcWF (visOf keep)` -/
theorem srcWF_of_treeF (keep : FPath → Bool) (S : FS) (rs : FPath) (f : Nat) (h : SrcTreeOk S rs f) :
    SrcWF (visOf keep) (srcOfFS S rs) (lsOfFSF keep S rs f) := by
  have h0 := srcWF_of_tree S rs f h
  have hfold : ∀ p n, p ≠ [] → S.get (rs ++ p) = some n →
      ∀ k, 0 < k → k < p.length → S.get (rs ++ p.take k) = some .folder := by
    intro p n hp hg k hk0 hk
    have := prefixes_folders (fun q => if q = [] then some Node.folder else S.get (rs ++ q)) Node.folder
      (fun q hq hq' => by
        by_cases hd : q.dropLast = []
        · simp [hd]
        · simp only [hd, ↓reduceIte]
          simp only [hq, ↓reduceIte] at hq'
          exact h.closed q hq hq' hd) p (by simp [hp, hg]) k hk
    have hne : p.take k ≠ [] := by
      intro e
      have := congrArg List.length e
      rw [List.length_take, List.length_nil] at this; omega
    simpa [hne] using this
  refine ⟨h0.closed, ?_, fun p k hv => visOf_take k hv, ?_, h0.links⟩
  · intro p e
    simp only [lsOfFSF, List.mem_filterMap, srcOfFS]
    constructor
    · rintro ⟨⟨q, n⟩, hmem, hmap⟩
      obtain ⟨g1, ⟨t, ht⟩, g3, -⟩ := listNodes_sound S h.wf f rs q n ((listNodesF_sublist keep rs S f rs).subset hmem)
      have hk := listNodesF_kept keep rs S h.wf f rs q n hmem
      subst ht
      cases hs : sentryOf n with
      | none => simp [hs] at hmap
      | some s =>
        simp only [hs, Option.map_some, Option.some.injEq, Prod.mk.injEq, List.drop_left] at hmap
        obtain ⟨rfl, rfl⟩ := hmap
        refine ⟨?_, ?_, by rw [g1]; simpa using hs⟩
        · intro e1; subst e1; simp at g3
        · rw [visOf_iff]
          intro k hk0 hkl
          have := hk (rs.length + k) (by omega) (by simp; omega)
          have e2 : (rs ++ t).take (rs.length + k) = rs ++ t.take k := by
            rw [List.take_append]
            simp [List.take_of_length_le]
          rwa [e2, List.drop_left] at this
    · rintro ⟨hp, hv, hg⟩
      cases hn : S.get (rs ++ p) with
      | none => rw [hn] at hg; simp at hg
      | some n =>
        rw [hn] at hg
        simp only [Option.bind_some] at hg
        rw [visOf_iff] at hv
        have := listNodesF_complete keep rs S f rs p n hp (h.fuel p (by rw [hn]; simp)) hn (hfold p n hp hn)
          (fun k hk0 hk => by rw [List.drop_left]; exact hv k hk0 hk)
        exact ⟨(rs ++ p, n), this, by simp [hg]⟩
  · have : (lsOfFSF keep S rs f).Sublist (lsOfFS S rs f) := by
      unfold lsOfFSF lsOfFS
      exact (listNodesF_sublist keep rs S f rs).filterMap _
    exact h0.parentFirst.sublist this

end Rj

namespace Rj
open FS

theorem listStep_goodF (fs : FS) (abs : List Comp) (keep' : String → Bool) (root : FPath)
    (sub : FPath → List (String × Details) × List ErrClass)
    (acc : List (String × Details) × List ErrClass) (e : FPath × Node) (h : Reportable fs abs e) :
    listStep fs abs keep' root sub acc e =
      if keep' (relString root e.1) then
        (match e.2 with
        | .folder => (acc.1 ++ (relString root e.1, detOr fs abs e) :: (sub e.1).1, acc.2 ++ (sub e.1).2)
        | _ => (acc.1 ++ [(relString root e.1, detOr fs abs e)], acc.2))
      else acc := by
  obtain ⟨h1, d, h2⟩ := h
  have hn : ¬ '\\' ∈ e.1.getLast?.getD [] := by simpa using h1
  obtain ⟨p, n⟩ := e
  by_cases hk : keep' (relString root p) = true
  · cases n <;> (simp only [listStep, detOr, h2]; simp [hn, hk])
  · cases n <;> (simp only [listStep, detOr, h2]; simp [hn, hk])

/-- **`GetEntries` with filters lists exactly `listNodesF`**: the doer's walk (`listDir`, whose filter judges the
root-relative path string) reports the entries of the filtered listing, each with its path and details, and no error —
provided every entry below the directory is reportable. -/
theorem listDir_eq_listNodesF (fs : FS) (abs : List Comp) (keep' : String → Bool) (keep : FPath → Bool) (root : FPath)
    (hkk : ∀ p, keep' (relString root p) = keep (p.drop root.length))
    (f : Nat) (dir : FPath)
    (hgood : ∀ e ∈ listNodes fs f dir, Reportable fs abs e) :
    listDir fs abs keep' root f dir =
      ((listNodesF keep root fs f dir).map fun e => (relString root e.1, detOr fs abs e), []) := by
  induction f generalizing dir with
  | zero => simp [listDir, listNodesF]
  | succ f ih =>
    simp only [listDir, listNodes, listNodesF] at hgood ⊢
    have key : ∀ (l : List (FPath × Node)) (acc : List (String × Details) × List ErrClass),
        (∀ c ∈ l, ∀ e ∈ (c :: (if c.2 = .folder then listNodes fs f c.1 else [])), Reportable fs abs e) →
        l.foldl (listStep fs abs keep' root (listDir fs abs keep' root f)) acc =
          (acc.1 ++ (l.flatMap fun c => if keep (c.1.drop root.length) then
              c :: (if c.2 = .folder then listNodesF keep root fs f c.1 else []) else []).map
            (fun e => (relString root e.1, detOr fs abs e)), acc.2) := by
      intro l
      induction l with
      | nil => intro acc _; simp
      | cons c rest ihl =>
        intro acc hg
        have hc := hg c (by simp) c (by simp)
        simp only [List.foldl_cons]
        rw [listStep_goodF fs abs keep' root _ acc c hc, hkk]
        have hrest : ∀ c' ∈ rest, ∀ e ∈ (c' :: (if c'.2 = .folder then listNodes fs f c'.1 else [])), Reportable fs abs e :=
          fun c' hc' e he => hg c' (by simp [hc']) e he
        by_cases hkc : keep (c.1.drop root.length) = true
        · simp only [hkc, ↓reduceIte]
          cases hk : c.2 with
          | folder =>
            have hsub : ∀ e ∈ listNodes fs f c.1, Reportable fs abs e := by
              intro e he
              exact hg c (by simp) e (by simp [hk, he])
            simp only [ih c.1 hsub]
            rw [ihl _ hrest]
            simp [hk, hkc, List.flatMap_cons]
          | file b m => simp only; rw [ihl _ hrest]; simp [hk, hkc, List.flatMap_cons]
          | symlink t => simp only; rw [ihl _ hrest]; simp [hk, hkc, List.flatMap_cons]
          | special => simp only; rw [ihl _ hrest]; simp [hk, hkc, List.flatMap_cons]
        · simp only [hkc]
          rw [ihl _ hrest]
          simp [hkc, List.flatMap_cons]
    have := key (fs.childrenOf dir) ([], []) (by
      intro c hc e he
      exact hgood e (List.mem_flatMap.mpr ⟨c, hc, he⟩))
    simpa using this

end Rj
