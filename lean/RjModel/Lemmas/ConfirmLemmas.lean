import RjModel.Model.Confirm
namespace Rj

theorem removeAll_vec {V : Type} (m : OMap V) (l : List String) : (removeAll m l).vec = m.vec := by
  induction l generalizing m with
  | nil => rfl
  | cons p ps ih => simp [removeAll, ih]

theorem removeAll_get {V : Type} (m : OMap V) (l : List String) (k : String) :
    (removeAll m l).get k = if k ∈ l then none else m.get k := by
  induction l generalizing m with
  | nil => simp [removeAll]
  | cons p ps ih =>
    simp only [removeAll, ih, OMap.get_remove, List.mem_cons]
    by_cases h1 : k ∈ ps <;> by_cases h2 : k = p <;> simp [h1, h2]

theorem mem_keys_iff {V : Type} (m : OMap V) (k : String) : k ∈ m.keys ↔ k ∈ m.vec ∧ (m.get k).isSome = true := by
  simp only [OMap.keys, OMap.iter, List.mem_map, List.mem_filterMap, Option.map_eq_some_iff]
  constructor
  · rintro ⟨⟨k', v⟩, ⟨a, ha, w, hw, he⟩, rfl⟩
    cases he
    exact ⟨ha, by simp [hw]⟩
  · rintro ⟨hv, hs⟩
    obtain ⟨v, hv'⟩ := Option.isSome_iff_exists.mp hs
    exact ⟨(k, v), ⟨k, hv, v, hv', rfl⟩, rfl⟩

end Rj
