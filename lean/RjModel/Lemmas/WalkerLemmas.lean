import RjModel.Model.Walker
namespace Rj.Walker

/-! potential function: every step strictly decreases it ⇒ every execution is finite -/
def Job.wt : Job → Nat | .dir kids => 4 + 10 * szs kids | .done => 1
def WS.wt : WS → Nat
  | .idle => 0 | .exited => 0
  | .busy rem => 3 + 10 * szs rem
  | .afterSend kids rem => 9 + 10 * szs kids + 10 * szs rem
  | .afterInc kids rem => 8 + 10 * szs kids + 10 * szs rem
def sumJ : List Job → Nat | [] => 0 | j :: js => j.wt + sumJ js
def sumW : List WS → Nat | [] => 0 | w :: ws => w.wt + sumW ws
def pend (b : Bool) (n : Nat) : Nat := if b then 0 else n + 1
def phi (n : Nat) (s : St) : Nat :=
  sumJ s.jobs + sumW s.ws + s.results.length + pend s.doneSent n

theorem sumJ_append (a b : List Job) : sumJ (a ++ b) = sumJ a + sumJ b := by
  induction a with
  | nil => simp [sumJ]
  | cons x xs ih => simp [sumJ, ih]; omega
theorem sumJ_done (n : Nat) : sumJ (List.replicate n .done) = n := by
  induction n with
  | zero => rfl
  | succ k ih => simp [List.replicate_succ, sumJ, Job.wt, ih]; omega
theorem sumW_set (ws : List WS) (w : Nat) (old new : WS) (h : ws[w]? = some old) :
    sumW (ws.set w new) + old.wt = sumW ws + new.wt := by
  induction ws generalizing w with
  | nil => simp at h
  | cons x xs ih =>
    cases w with
    | zero => simp at h; subst h; simp [sumW]; omega
    | succ k => simp at h; have := ih k h; simp [sumW]; omega

theorem phi_decreases (n cap : Nat) (s s' : St) (a : Act) (h : step n cap s a = some s') :
    phi n s' < phi n s := by
  cases a <;> simp only [step] at h
  · -- take
    split at h <;> try cases h
    · next kids js hw hj =>
      have := sumW_set s.ws _ _ (.busy kids) hw
      simp only [phi, setW, hj, sumJ, Job.wt, WS.wt] at *; omega
    · next js hw hj =>
      have := sumW_set s.ws _ _ .exited hw
      simp only [phi, setW, hj, sumJ, Job.wt, WS.wt] at *; omega
  · -- entry
    split at h <;> try cases h
    · next id skip rem hw =>
      split at h
      · cases h; have := sumW_set s.ws _ _ (.busy rem) hw
        simp only [phi, setW, WS.wt, szs, T.sz] at *; omega
      · split at h <;> cases h
        have := sumW_set s.ws _ _ (.busy rem) hw
        simp only [phi, setW, WS.wt, szs, T.sz, List.length_append, List.length_singleton] at *; omega
    · next id skip kids rem hw =>
      split at h
      · cases h; have := sumW_set s.ws _ _ (.busy rem) hw
        simp only [phi, setW, WS.wt, szs, T.sz] at *; omega
      · split at h <;> cases h
        have := sumW_set s.ws _ _ (.afterSend kids rem) hw
        simp only [phi, setW, WS.wt, szs, T.sz, List.length_append, List.length_singleton] at *; omega
  · -- inc
    split at h <;> try cases h
    next kids rem hw =>
      have := sumW_set s.ws _ _ (.afterInc kids rem) hw
      simp only [phi, setW, WS.wt] at *; omega
  · -- enq
    split at h <;> try cases h
    next kids rem hw =>
      have := sumW_set s.ws _ _ (.busy rem) hw
      simp only [phi, setW, WS.wt, sumJ_append, sumJ, Job.wt] at *; omega
  · -- fin
    split at h <;> try cases h
    next hw =>
      split at h <;> cases h
      · next hc =>
        have := sumW_set s.ws _ _ .idle hw
        have hd : s.doneSent = false := by simpa using hc.2
        simp only [phi, setW, WS.wt, szs, sumJ_append, sumJ_done, hd, pend] at *; simp; omega
      · have := sumW_set s.ws _ _ .idle hw
        simp only [phi, setW, WS.wt, szs] at *; omega
  · -- consume
    split at h <;> cases h
    next r rs hr => simp only [phi, hr, List.length_cons]; omega

end Rj.Walker

namespace Rj.Walker

/-! ### conservation: how often an id is still to be emitted / queued / delivered -/

def cntL (i : Nat) : List Nat → Nat
  | [] => 0
  | x :: xs => (if x = i then 1 else 0) + cntL i xs

theorem cntL_append (i : Nat) (a b : List Nat) : cntL i (a ++ b) = cntL i a + cntL i b := by
  induction a with
  | nil => simp [cntL]
  | cons x xs ih => simp [cntL, ih]; omega

def Job.c (i : Nat) : Job → Nat | .dir kids => cnts i kids | .done => 0
def WS.c (i : Nat) : WS → Nat
  | .idle => 0 | .exited => 0
  | .busy rem => cnts i rem
  | .afterSend kids rem => cnts i kids + cnts i rem
  | .afterInc kids rem => cnts i kids + cnts i rem
def sumJc (i : Nat) : List Job → Nat | [] => 0 | j :: js => j.c i + sumJc i js
def sumWc (i : Nat) : List WS → Nat | [] => 0 | w :: ws => w.c i + sumWc i ws

/-- occurrences of id `i` anywhere in the system -/
def total (i : Nat) (s : St) : Nat := sumJc i s.jobs + sumWc i s.ws + cntL i s.results + cntL i s.consumed

theorem sumJc_append (i : Nat) (a b : List Job) : sumJc i (a ++ b) = sumJc i a + sumJc i b := by
  induction a with
  | nil => simp [sumJc]
  | cons x xs ih => simp [sumJc, ih]; omega
theorem sumJc_done (i n : Nat) : sumJc i (List.replicate n .done) = 0 := by
  induction n with
  | zero => rfl
  | succ k ih => simp [List.replicate_succ, sumJc, Job.c, ih]
theorem sumWc_set (i : Nat) (ws : List WS) (w : Nat) (old new : WS) (h : ws[w]? = some old) :
    sumWc i (ws.set w new) + old.c i = sumWc i ws + new.c i := by
  induction ws generalizing w with
  | nil => simp at h
  | cons x xs ih =>
    cases w with
    | zero => simp at h; subst h; simp [sumWc]; omega
    | succ k => simp at h; have := ih k h; simp [sumWc]; omega

/-- every step conserves the number of occurrences of every id -/
theorem total_preserved (i n cap : Nat) (s s' : St) (a : Act) (h : step n cap s a = some s') :
    total i s' = total i s := by
  cases a <;> simp only [step] at h
  · split at h <;> try cases h
    · next kids js hw hj =>
      have := sumWc_set i s.ws _ _ (.busy kids) hw
      simp only [total, setW, hj, sumJc, Job.c, WS.c] at *; omega
    · next js hw hj =>
      have := sumWc_set i s.ws _ _ .exited hw
      simp only [total, setW, hj, sumJc, Job.c, WS.c] at *; omega
  · split at h <;> try cases h
    · next id skip rem hw =>
      split at h
      · next hs =>
        cases h; have := sumWc_set i s.ws _ _ (.busy rem) hw
        simp only [total, setW, WS.c, cnts, T.cnt, hs, ↓reduceIte] at *; omega
      · next hs =>
        split at h <;> cases h
        have := sumWc_set i s.ws _ _ (.busy rem) hw
        simp only [total, setW, WS.c, cnts, T.cnt, hs, cntL_append, cntL, Bool.false_eq_true, ↓reduceIte] at *; omega
    · next id skip kids rem hw =>
      split at h
      · next hs =>
        cases h; have := sumWc_set i s.ws _ _ (.busy rem) hw
        simp only [total, setW, WS.c, cnts, T.cnt, hs, ↓reduceIte] at *; omega
      · next hs =>
        split at h <;> cases h
        have := sumWc_set i s.ws _ _ (.afterSend kids rem) hw
        simp only [total, setW, WS.c, cnts, T.cnt, hs, cntL_append, cntL, Bool.false_eq_true, ↓reduceIte] at *; omega
  · split at h <;> try cases h
    next kids rem hw =>
      have := sumWc_set i s.ws _ _ (.afterInc kids rem) hw
      simp only [total, setW, WS.c] at *; omega
  · split at h <;> try cases h
    next kids rem hw =>
      have := sumWc_set i s.ws _ _ (.busy rem) hw
      simp only [total, setW, WS.c, sumJc_append, sumJc, Job.c] at *; omega
  · split at h <;> try cases h
    next hw =>
      split at h <;> cases h
      · have := sumWc_set i s.ws _ _ .idle hw
        simp only [total, setW, WS.c, cnts, sumJc_append, sumJc_done] at *; omega
      · have := sumWc_set i s.ws _ _ .idle hw
        simp only [total, setW, WS.c, cnts] at *; omega
  · split at h <;> cases h
    next r rs hr => simp only [total, hr, cntL, cntL_append]; omega

theorem sumWc_idle (i n : Nat) : sumWc i (List.replicate n .idle) = 0 := by
  induction n with
  | zero => rfl
  | succ k ih => simp [List.replicate_succ, sumWc, WS.c, ih]

theorem total_runSched (i n cap : Nat) (sched : List Act) : ∀ s, total i (runSched n cap s sched) = total i s := by
  induction sched with
  | nil => intro s; rfl
  | cons a as ih =>
    intro s
    simp only [runSched]
    cases h : step n cap s a with
    | none => exact ih s
    | some s' => rw [ih s', total_preserved i n cap s s' a h]

end Rj.Walker
