import RjModel.Model.Boss
/-! Every command the boss model emits, classified: one structural theorem about `run` from which
the trace properties (C02, C03, C05, C07) are corollaries. -/
namespace Rj

/-- all commands emitted so far satisfy the side's predicate -/
def TrOK (PS PD : Cmd → Prop) (x : XState) : Prop := (∀ c ∈ x.src, PS c) ∧ (∀ c ∈ x.dest, PD c)

theorem TrOK.sendSrc {PS PD : Cmd → Prop} {x : XState} (h : TrOK PS PD x) (c : Cmd) (hc : PS c) : TrOK PS PD (x.sendSrc c) := by
  refine ⟨?_, h.2⟩
  intro d hd
  simp only [XState.sendSrc, List.mem_append, List.mem_singleton] at hd
  rcases hd with hd | rfl
  · exact h.1 d hd
  · exact hc

theorem TrOK.sendDest {PS PD : Cmd → Prop} {x : XState} (h : TrOK PS PD x) (c : Cmd) (hc : PD c) : TrOK PS PD (x.sendDest c) := by
  refine ⟨h.1, ?_⟩
  intro d hd
  simp only [XState.sendDest, List.mem_append, List.mem_singleton] at hd
  rcases hd with hd | rfl
  · exact h.2 d hd
  · exact hc

theorem TrOK.info {PS PD : Cmd → Prop} {x : XState} (h : TrOK PS PD x) (l : String) : TrOK PS PD (x.info l) := h
theorem TrOK.poll {PS PD : Cmd → Prop} {x : XState} (h : TrOK PS PD x) (e : Option Nat) : TrOK PS PD (x.poll e).2 := h
theorem TrOK.withLog {PS PD : Cmd → Prop} {x : XState} (h : TrOK PS PD x) (l : List String) : TrOK PS PD { x with log := l } := h

/-- what the two sides may be sent, depending on `dryRun` -/
structure Allowed (dry : Bool) (PS PD : Cmd → Prop) (F : List FilterSpec → Prop) : Prop where
  sSetRoot : ∀ r, PS (.setRoot r)
  sGetEntries : ∀ f, F f → PS (.getEntries f)
  sGetFile : dry = false → ∀ p, PS (.getFileContent p)
  dSetRoot : ∀ r, PD (.setRoot r)
  dGetEntries : ∀ f, F f → PD (.getEntries f)
  dMarker : ∀ ph, PD (.marker ph)
  dMutating : dry = false → ∀ c, c.mutating = true → PD c

theorem deleteCmd_mutating (p : String) (d : Details) : (deleteCmd p d).mutating = true := by
  cases d <;> rfl

theorem delStepState_ok {PS PD : Cmd → Prop} {F : List FilterSpec → Prop} (c : Ctx) (A : Allowed c.dryRun PS PD F) (x : XState) (p : String) (d : Details)
    (h : TrOK PS PD x) : TrOK PS PD (delStepState c x p d) := by
  unfold delStepState
  cases hd : c.dryRun with
  | true => exact h.info _
  | false => exact h.sendDest _ (A.dMutating hd _ (deleteCmd_mutating p d))

theorem deleteLoop_ok {PS PD : Cmd → Prop} {F : List FilterSpec → Prop} (c : Ctx) (A : Allowed c.dryRun PS PD F) (errAt : Option Nat)
    (l : List (String × (Details × DelReason))) (x : XState) (st : Stats) (h : TrOK PS PD x) :
    TrOK PS PD (deleteLoop c errAt l x st).2.1 := by
  induction l generalizing x st with
  | nil => exact h
  | cons e rest ih =>
    obtain ⟨p, d, r⟩ := e
    simp only [deleteLoop]
    have hx := (delStepState_ok c A x p d h).poll errAt
    by_cases hp : ((delStepState c x p d).poll errAt).1 = true
    · simp only [hp, ↓reduceIte]; exact hx
    · simp only [hp, Bool.false_eq_true, ↓reduceIte]; exact ih _ _ hx

theorem chunkLoop_ok {PS PD : Cmd → Prop} {F : List FilterSpec → Prop} (A : Allowed false PS PD F) (errAt : Option Nat) (p : String) (size : Nat) (mtime : Int)
    (s : FileScript) (x : XState) (off : Nat) (h : TrOK PS PD x) :
    TrOK PS PD (chunkLoop errAt p size mtime s x off).2.1 := by
  induction s generalizing x off with
  | nil => exact h
  | cons ch rest ih =>
    obtain ⟨d, more⟩ := ch
    simp only [chunkLoop]
    by_cases hov : off + d.length > size
    · simp only [hov, ↓reduceIte]; exact h
    · simp only [hov, ↓reduceIte]
      have hx := (h.sendDest (chunkCmd p d mtime more) (A.dMutating rfl _ rfl)).poll errAt
      by_cases hp : ((x.sendDest (chunkCmd p d mtime more)).poll errAt).1 = true
      · simp only [hp, ↓reduceIte]; exact hx
      · simp only [hp, Bool.false_eq_true, ↓reduceIte]
        cases more with
        | true => simp only [↓reduceIte]; exact ih _ _ hx
        | false => simp only [Bool.false_eq_true, ↓reduceIte]; exact hx

theorem copyFileReal_ok {PS PD : Cmd → Prop} {F : List FilterSpec → Prop} (A : Allowed false PS PD F) (errAt : Option Nat) (files : List (String × FileScript))
    (p : String) (mtime : Int) (size : Nat) (x : XState) (st : Stats) (h : TrOK PS PD x) :
    TrOK PS PD (copyFileReal errAt files p mtime size x st).2.1 := by
  have hx := chunkLoop_ok A errAt p size mtime (fileScript files p) (x.sendSrc (.getFileContent p)) 0
    (h.sendSrc _ (A.sGetFile rfl p))
  unfold copyFileReal
  generalize chunkLoop errAt p size mtime (fileScript files p) (x.sendSrc (.getFileContent p)) 0 = r at hx
  obtain ⟨e, xx, off⟩ := r
  cases e with
  | some e => exact hx
  | none =>
    simp only
    by_cases ho : off = size
    · simp only [ho, ne_eq, not_true_eq_false, ↓reduceIte]; exact hx
    · simp only [ne_eq, ho, not_false_eq_true, ↓reduceIte]; exact hx

theorem copyOne_ok {PS PD : Cmd → Prop} {F : List FilterSpec → Prop} (c : Ctx) (A : Allowed c.dryRun PS PD F) (errAt : Option Nat) (files : List (String × FileScript))
    (p : String) (d : Details) (x : XState) (st : Stats) (h : TrOK PS PD x) :
    TrOK PS PD (copyOne c errAt files p d x st).2.1 := by
  cases hd : c.dryRun with
  | true =>
    cases d <;> simp only [copyOne, hd, ↓reduceIte] <;> exact h.info _
  | false =>
    have A' : Allowed false PS PD F := hd ▸ A
    cases d with
    | file mtime size =>
      simp only [copyOne, hd, Bool.false_eq_true, ↓reduceIte]
      exact copyFileReal_ok A' errAt files p mtime size x st h
    | folder =>
      simp only [copyOne, hd, Bool.false_eq_true, ↓reduceIte]
      exact h.sendDest _ (A'.dMutating rfl _ rfl)
    | symlink k t =>
      simp only [copyOne, hd, Bool.false_eq_true, ↓reduceIte]
      exact h.sendDest _ (A'.dMutating rfl _ rfl)

theorem copyLoop_ok {PS PD : Cmd → Prop} {F : List FilterSpec → Prop} (c : Ctx) (A : Allowed c.dryRun PS PD F) (errAt : Option Nat) (files : List (String × FileScript))
    (l : List (String × (Details × CopyReason))) (x : XState) (st : Stats) (h : TrOK PS PD x) :
    TrOK PS PD (copyLoop c errAt files l x st).2.1 := by
  induction l generalizing x st with
  | nil => exact h
  | cons e rest ih =>
    obtain ⟨p, d, r⟩ := e
    simp only [copyLoop]
    have hx := copyOne_ok c A errAt files p d x st h
    generalize copyOne c errAt files p d x st = r1 at hx
    obtain ⟨e1, x1, st1⟩ := r1
    cases e1 with
    | some e => exact hx
    | none =>
      simp only
      by_cases hp : (x1.poll errAt).1 = true
      · simp only [hp, ↓reduceIte]; exact hx.poll _
      · simp only [hp, Bool.false_eq_true, ↓reduceIte]; exact ih _ _ (hx.poll _)

end Rj

namespace Rj

/-- the classification of everything a run sent -/
def ResOK (PS PD : Cmd → Prop) (r : RunResult) : Prop := (∀ c ∈ r.srcTrace, PS c) ∧ (∀ c ∈ r.destTrace, PD c)

theorem mkResult_ok {PS PD : Cmd → Prop} {x : XState} (h : TrOK PS PD x) (o : Outcome) (c : Conf) : ResOK PS PD (mkResult o x c) := h

theorem execPhase_ok {PS PD : Cmd → Prop} {F : List FilterSpec → Prop} (sc : Scenario) (ctx : Ctx) (A : Allowed ctx.dryRun PS PD F) (x : XState) (conf : Conf)
    (del : OMap (Details × DelReason)) (cpy : OMap (Details × CopyReason)) (h : TrOK PS PD x) :
    ResOK PS PD (execPhase sc ctx x conf del cpy) := by
  unfold execPhase
  have h1 := deleteLoop_ok ctx A sc.errAtPoll del.iter x {} h
  generalize deleteLoop ctx sc.errAtPoll del.iter x {} = r1 at h1
  obtain ⟨e1, x1, st1⟩ := r1
  cases e1 with
  | some e => exact mkResult_ok h1 _ _
  | none =>
    simp only
    by_cases hb : barrierFails sc ctx del (x1.sendDest (.marker .copying)) = true
    · simp only [hb, ↓reduceIte]
      exact mkResult_ok (h1.sendDest _ (A.dMarker _)) _ _
    simp only [hb, Bool.false_eq_true, ↓reduceIte]
    have h2 := copyLoop_ok ctx A sc.errAtPoll sc.files cpy.iter (x1.sendDest (.marker .copying)) st1 (h1.sendDest _ (A.dMarker _))
    generalize copyLoop ctx sc.errAtPoll sc.files cpy.iter (x1.sendDest (.marker .copying)) st1 = r2 at h2
    obtain ⟨e2, x2, st2⟩ := r2
    cases e2 with
    | some e => exact mkResult_ok h2 _ _
    | none =>
      simp only
      have h3 := h2.sendDest (.marker .done) (A.dMarker _)
      cases sc.errAtPoll with
      | some _ => exact mkResult_ok h3 _ _
      | none => exact mkResult_ok (h3.withLog _) _ _

theorem queryPhase_ok {PS PD : Cmd → Prop} {F : List FilterSpec → Prop} (sc : Scenario) (fs : List FilterSpec) (ctx : Ctx) (A : Allowed ctx.dryRun PS PD F) (hF : F fs)
    (x : XState) (conf : Conf) (pc : PCfg) (srcD : Details) (destD : Option Details) (h : TrOK PS PD x) :
    ResOK PS PD (queryPhase sc fs ctx x conf pc srcD destD) := by
  unfold queryPhase
  cases afterRoots pc srcD destD with
  | none => exact mkResult_ok h _ _
  | some t =>
    obtain ⟨ps, srcAsked, destAsked⟩ := t
    simp only
    have hx1 : TrOK PS PD (if srcAsked = true then x.sendSrc (.getEntries fs) else x) := by
      cases srcAsked
      · simpa using h
      · simpa using h.sendSrc _ (A.sGetEntries fs hF)
    generalize (if srcAsked = true then x.sendSrc (.getEntries fs) else x) = x1 at hx1
    have hx2 : TrOK PS PD (if destAsked = true then x1.sendDest (.getEntries fs) else x1) := by
      cases destAsked
      · simpa using hx1
      · simpa using hx1.sendDest _ (A.dGetEntries fs hF)
    generalize (if destAsked = true then x1.sendDest (.getEntries fs) else x1) = x2 at hx2
    by_cases hq : (sc.errInQuery && (destD.isNone && !ctx.dryRun) && (srcAsked || destAsked)) = true
    · simp only [hq, ↓reduceIte]; exact mkResult_ok hx2 _ _
    · simp only [hq, Bool.false_eq_true, ↓reduceIte]
      cases queryLoop pc srcAsked destAsked sc.events ⟨ps, !srcAsked, !destAsked⟩ with
      | error e =>
        cases e with
        | none => exact mkResult_ok hx2 _ _
        | some e => exact mkResult_ok hx2 _ _
      | ok q =>
        simp only
        generalize confirmActions conf q.ps.del.reverseOrder q.ps.cpy = r
        obtain ⟨e, conf', del', cpy'⟩ := r
        cases e with
        | some e => exact mkResult_ok hx2 _ _
        | none => exact execPhase_ok sc ctx A x2 conf' del' cpy' hx2

theorem runFromRoots_ok {PS PD : Cmd → Prop} {F : List FilterSpec → Prop} (w : Wrap) (sc : Scenario) (fs : List FilterSpec) (ctx : Ctx)
    (A : Allowed ctx.dryRun PS PD F) (hF : F fs) (hA : ctx.dryRun = false → PD .createRootAncestors)
    (x : XState) (srcD : Details) (destD : Option Details) (destDiff : Bool) (h : TrOK PS PD x) :
    ResOK PS PD (runFromRoots w sc fs ctx x srcD destD destDiff) := by
  unfold runFromRoots
  simp only
  generalize gateOf sc { sameTimeSkip := sc.beh.same == Beh.skip, destDiff := destDiff } srcD destD = gate
  obtain ⟨g, conf⟩ := gate
  cases g with
  | none => exact mkResult_ok h _ _
  | some b =>
    cases b with
    | false => exact mkResult_ok h _ _
    | true =>
      simp only
      apply queryPhase_ok sc fs ctx A hF
      by_cases ha : (destD.isNone && !ctx.dryRun) = true
      · simp only [ha, ↓reduceIte]
        have hd : ctx.dryRun = false := by
          simp only [Bool.and_eq_true, Bool.not_eq_true'] at ha; exact ha.2
        exact h.sendDest _ (hA hd)
      · simp only [ha, Bool.false_eq_true, ↓reduceIte]; exact h

/-- **Everything a run sends, classified** — for every scenario (any replies incl. errors and
unexpected variants, any arrival order, any prompt answers, any moment at which a destination error
becomes visible): the source is sent only `SetRoot`, `GetEntries` and — unless it is a dry run —
`GetFileContent`; the destination is sent only `SetRoot`, `GetEntries`, markers and — unless it is a
dry run — mutating commands. -/
theorem run_ok {PS PD : Cmd → Prop} (w : Wrap) (sc : Scenario)
    (A : Allowed sc.dryRun PS PD (fun f => compileFilters w.pre w.post sc.filters = some f)) :
    ResOK PS PD (run w sc) := by
  have hA : sc.dryRun = false → PD .createRootAncestors := fun hd => A.dMutating hd _ rfl
  have h0 : TrOK PS PD ⟨[], [], [], 0⟩ := ⟨fun c hc => by simp at hc, fun c hc => by simp at hc⟩
  unfold run
  simp only
  cases hcf : compileFilters w.pre w.post sc.filters with
  | none => exact mkResult_ok h0 _ _
  | some fs =>
    simp only
    have hF : (fun f => compileFilters w.pre w.post sc.filters = some f) fs := hcf
    have h1 := h0.sendSrc (.setRoot sc.srcRoot) (A.sSetRoot _)
    cases sc.srcReply with
    | other => exact mkResult_ok h1 _ _
    | details d _ srcSep =>
      cases d with
      | none => exact mkResult_ok h1 _ _
      | some srcD =>
        simp only
        cases validateTrailingSlash sc.srcRoot srcD with
        | none => exact mkResult_ok h1 _ _
        | some b =>
          cases b with
          | false => exact mkResult_ok h1 _ _
          | true =>
            simp only
            have h2 := h1.sendDest (.setRoot sc.destRoot) (A.dSetRoot _)
            cases sc.destReply with
            | other => exact mkResult_ok h2 _ _
            | details destD destDiff destSep =>
              simp only
              generalize destValid sc.destRoot destD = v
              cases v with
              | none => exact mkResult_ok h2 _ _
              | some b =>
                cases b with
                | false => exact mkResult_ok h2 _ _
                | true =>
                  simp only
                  by_cases hs : (srcD.isFileOrSymlink && destHasSlash sc.destRoot) = true
                  · simp only [hs, ↓reduceIte]
                    have h3 := h2.sendDest (.setRoot (sc.destRoot ++ lastComponent sc.srcRoot)) (A.dSetRoot _)
                    cases sc.destReply2 with
                    | other => exact mkResult_ok h3 _ _
                    | details destD2 _ _ =>
                      exact runFromRoots_ok w sc fs ⟨sc.srcRoot, _, srcSep, destSep, sc.dryRun⟩ A hF hA _ srcD destD2 destDiff h3
                  · simp only [hs, Bool.false_eq_true, ↓reduceIte]
                    exact runFromRoots_ok w sc fs ⟨sc.srcRoot, sc.destRoot, srcSep, destSep, sc.dryRun⟩ A hF hA _ srcD destD destDiff h2

end Rj
