import RjModel.Model.Planner
/-! The planner's closed form is an inductive invariant of the arrival handlers
(`process_src_entry` / `process_dest_entry`), whichever side's entry arrives next; the same lemma
shows that the `unwrap` in `OrderedMap::update` cannot fire. -/
namespace Rj

/-- closed forms -/
def delSpec (c : PCfg) (src dst : String → Option Details) (p : String) : Option (Details × DelReason) :=
  match dst p with
  | none => none
  | some d => match src p with
    | none => some (d, .notOnSource)
    | some e => if needsDelete c e d then some (d, .incompatible) else none
def cpySpec (c : PCfg) (src dst : String → Option Details) (p : String) : Option (Details × CopyReason) :=
  match src p with
  | none => none
  | some e => match dst p with
    | none => some (e, .notOnDest)
    | some d => if needsDelete c e d then some (e, .notOnDest) else (needsCopy c e d).map (fun r => (e, r))

def Inv (c : PCfg) (s : PState) : Prop :=
  (∀ p, s.del.get p = delSpec c s.src.get s.dst.get p) ∧
  (∀ p, s.cpy.get p = cpySpec c s.src.get s.dst.get p)

def fresh (s : PState) : Ev → Prop
  | .src p _ => s.src.get p = none
  | .dst p _ => s.dst.get p = none

theorem step_inv (c : PCfg) (s : PState) (e : Ev) (hi : Inv c s) (hf : fresh s e) :
    ∃ s', pstep c s e = some s' ∧ Inv c s' := by
  obtain ⟨hd, hc⟩ := hi
  cases e with
  | src p e =>
    simp only [fresh] at hf
    simp only [pstep]
    cases hdp : s.dst.get p with
    | none =>
      refine ⟨_, rfl, ?_, ?_⟩
      · intro q; simp only [hd q, delSpec, OMap.get_add]
        by_cases hq : q = p
        · subst hq; simp [hdp]
        · simp [hq]
      · intro q; simp only [OMap.get_add, cpySpec]
        by_cases hq : q = p
        · subst hq; simp [hdp]
        · simp [hq, hc q, cpySpec]
    | some d =>
      by_cases hnd : needsDelete c e d = true
      · simp only [hnd, ↓reduceIte]
        have hdel : s.del.get p = some (d, .notOnSource) := by simp [hd p, delSpec, hdp, hf]
        have : ∃ del', s.del.update p (d, .incompatible) = some del' := by
          unfold OMap.update; simp [hdel]
        obtain ⟨del', hu⟩ := this
        refine ⟨_, by rw [hu]; rfl, ?_, ?_⟩
        · intro q; simp only [OMap.get_update _ _ _ _ _ hu, OMap.get_add, delSpec]
          by_cases hq : q = p
          · subst hq; simp [hdp, hnd]
          · simp [hq, hd q, delSpec]
        · intro q; simp only [OMap.get_add, cpySpec]
          by_cases hq : q = p
          · subst hq; simp [hdp, hnd]
          · simp [hq, hc q, cpySpec]
      · simp only [hnd, Bool.false_eq_true, ↓reduceIte]
        cases hnc : needsCopy c e d with
        | some r =>
          refine ⟨_, rfl, ?_, ?_⟩
          · intro q; simp only [OMap.get_remove, OMap.get_add, delSpec]
            by_cases hq : q = p
            · subst hq; simp [hdp, hnd]
            · simp [hq, hd q, delSpec]
          · intro q; simp only [OMap.get_add, cpySpec]
            by_cases hq : q = p
            · subst hq; simp [hdp, hnd, hnc]
            · simp [hq, hc q, cpySpec]
        | none =>
          refine ⟨_, rfl, ?_, ?_⟩
          · intro q; simp only [OMap.get_remove, OMap.get_add, delSpec]
            by_cases hq : q = p
            · subst hq; simp [hdp, hnd]
            · simp [hq, hd q, delSpec]
          · intro q; simp only [OMap.get_add, cpySpec]
            by_cases hq : q = p
            · subst hq; simp [hdp, hnd, hnc, hc q, cpySpec, hf]
            · simp [hq, hc q, cpySpec]
  | dst p d =>
    simp only [fresh] at hf
    simp only [pstep]
    cases hsp : s.src.get p with
    | none =>
      refine ⟨_, rfl, ?_, ?_⟩
      · intro q; simp only [OMap.get_add, delSpec]
        by_cases hq : q = p
        · subst hq; simp [hsp]
        · simp [hq, hd q, delSpec]
      · intro q; simp only [OMap.get_add, cpySpec]
        by_cases hq : q = p
        · subst hq; simp [hsp, hc q, cpySpec]
        · simp [hq, hc q, cpySpec]
    | some e =>
      by_cases hnd : needsDelete c e d = true
      · simp only [hnd, ↓reduceIte]
        refine ⟨_, rfl, ?_, ?_⟩
        · intro q; simp only [OMap.get_add, delSpec]
          by_cases hq : q = p
          · subst hq; simp [hsp, hnd]
          · simp [hq, hd q, delSpec]
        · intro q; simp only [OMap.get_add, cpySpec]
          by_cases hq : q = p
          · subst hq; simp [hsp, hnd, hc q, cpySpec, hf]
          · simp [hq, hc q, cpySpec]
      · simp only [hnd, Bool.false_eq_true, ↓reduceIte]
        have hcp : s.cpy.get p = some (e, .notOnDest) := by simp [hc p, cpySpec, hsp, hf]
        cases hnc : needsCopy c e d with
        | some r =>
          have : ∃ cpy', s.cpy.update p (e, r) = some cpy' := by
            unfold OMap.update; simp [hcp]
          obtain ⟨cpy', hu⟩ := this
          refine ⟨_, by simp only []; rw [hu]; rfl, ?_, ?_⟩
          · intro q; simp only [OMap.get_add, delSpec]
            by_cases hq : q = p
            · subst hq; simp [hsp, hnd, hd q, delSpec, hf]
            · simp [hq, hd q, delSpec]
          · intro q; simp only [OMap.get_update _ _ _ _ _ hu, OMap.get_add, cpySpec]
            by_cases hq : q = p
            · subst hq; simp [hsp, hnd, hnc]
            · simp [hq, hc q, cpySpec]
        | none =>
          refine ⟨_, rfl, ?_, ?_⟩
          · intro q; simp only [OMap.get_add, delSpec]
            by_cases hq : q = p
            · subst hq; simp [hsp, hnd, hd q, delSpec, hf]
            · simp [hq, hd q, delSpec]
          · intro q; simp only [OMap.get_remove, OMap.get_add, cpySpec]
            by_cases hq : q = p
            · subst hq; simp [hsp, hnd, hnc]
            · simp [hq, hc q, cpySpec]

end Rj

namespace Rj

/-! ### whole arrival sequences -/

def Ev.path : Ev → String
  | .src p _ | .dst p _ => p

/-- the source listing carried by an arrival sequence, in arrival order -/
def srcOf : List Ev → List (String × Details)
  | [] => []
  | .src p d :: es => (p, d) :: srcOf es
  | .dst _ _ :: es => srcOf es

/-- the destination listing carried by an arrival sequence, in arrival order -/
def dstOf : List Ev → List (String × Details)
  | [] => []
  | .dst p d :: es => (p, d) :: dstOf es
  | .src _ _ :: es => dstOf es

theorem pstep_src_get {c : PCfg} {s s' : PState} {e : Ev} (h : pstep c s e = some s') (q : String) :
    s'.src.get q = match e with
      | .src p d => if q = p then some d else s.src.get q
      | .dst _ _ => s.src.get q := by
  cases e with
  | src p d =>
    simp only [pstep] at h
    split at h
    · cases h; simp
    · split at h
      · simp only [Option.map_eq_some_iff] at h
        obtain ⟨del', _, rfl⟩ := h; simp
      · split at h <;> cases h <;> simp
  | dst p d =>
    simp only [pstep] at h
    split at h
    · cases h; simp
    · split at h
      · cases h; simp
      · split at h
        · simp only [Option.map_eq_some_iff] at h
          obtain ⟨cpy', _, rfl⟩ := h; simp
        · cases h; simp

theorem pstep_dst_get {c : PCfg} {s s' : PState} {e : Ev} (h : pstep c s e = some s') (q : String) :
    s'.dst.get q = match e with
      | .dst p d => if q = p then some d else s.dst.get q
      | .src _ _ => s.dst.get q := by
  cases e with
  | src p d =>
    simp only [pstep] at h
    split at h
    · cases h; simp
    · split at h
      · simp only [Option.map_eq_some_iff] at h
        obtain ⟨del', _, rfl⟩ := h; simp
      · split at h <;> cases h <;> simp
  | dst p d =>
    simp only [pstep] at h
    split at h
    · cases h; simp
    · split at h
      · cases h; simp
      · split at h
        · simp only [Option.map_eq_some_iff] at h
          obtain ⟨cpy', _, rfl⟩ := h; simp
        · cases h; simp

theorem lookup_append {V : Type} (l1 l2 : List (String × V)) (q : String) :
    lookup (l1 ++ l2) q = match lookup l1 q with | some x => some x | none => lookup l2 q := by
  induction l1 with
  | nil => simp [lookup]
  | cons x xs ih =>
    obtain ⟨k, v⟩ := x
    simp only [List.cons_append, lookup]
    split
    · rfl
    · exact ih

/-- Every path occurs at most once per side, and not yet in the starting state. -/
def FreshFrom (s : PState) (evs : List Ev) : Prop :=
  ((srcOf evs).map (·.1)).Nodup ∧ ((dstOf evs).map (·.1)).Nodup ∧
  (∀ p ∈ (srcOf evs).map (·.1), s.src.get p = none) ∧
  (∀ p ∈ (dstOf evs).map (·.1), s.dst.get p = none)

/-- The run never panics and ends in a state that satisfies the closed form; the entry maps are the
listings. -/
theorem prun_inv (c : PCfg) (evs : List Ev) : ∀ (s : PState), Inv c s → FreshFrom s evs →
    ∃ s', prun c s evs = some s' ∧ Inv c s' ∧
      (∀ q, s'.src.get q = match lookup (srcOf evs).reverse q with | some d => some d | none => s.src.get q) ∧
      (∀ q, s'.dst.get q = match lookup (dstOf evs).reverse q with | some d => some d | none => s.dst.get q) := by
  induction evs with
  | nil => intro s hi _; exact ⟨s, rfl, hi, by intro q; simp [srcOf, lookup], by intro q; simp [dstOf, lookup]⟩
  | cons e es ih =>
    intro s hi hf
    obtain ⟨nds, ndd, hs, hd⟩ := hf
    have hfr : fresh s e := by
      cases e with
      | src p d => exact hs p (by simp [srcOf])
      | dst p d => exact hd p (by simp [dstOf])
    obtain ⟨s1, h1, hi1⟩ := step_inv c s e hi hfr
    have hf1 : FreshFrom s1 es := by
      cases e with
      | src p d =>
        simp only [srcOf, List.map_cons, List.nodup_cons] at nds
        refine ⟨nds.2, by simpa [dstOf] using ndd, ?_, ?_⟩
        · intro q hq
          rw [pstep_src_get h1 q]
          have : q ≠ p := fun e => nds.1 (e ▸ hq)
          simp only [this, ↓reduceIte]
          exact hs q (by simp [srcOf, hq])
        · intro q hq
          rw [pstep_dst_get h1 q]
          exact hd q (by simpa [dstOf] using hq)
      | dst p d =>
        simp only [dstOf, List.map_cons, List.nodup_cons] at ndd
        refine ⟨by simpa [srcOf] using nds, ndd.2, ?_, ?_⟩
        · intro q hq
          rw [pstep_src_get h1 q]
          exact hs q (by simpa [srcOf] using hq)
        · intro q hq
          rw [pstep_dst_get h1 q]
          have : q ≠ p := fun e => ndd.1 (e ▸ hq)
          simp only [this, ↓reduceIte]
          exact hd q (by simp [dstOf, hq])
    obtain ⟨s', h2, hi2, hsg, hdg⟩ := ih s1 hi1 hf1
    refine ⟨s', by simp [prun, h1, h2], hi2, ?_, ?_⟩
    · intro q
      rw [hsg q, pstep_src_get h1 q]
      cases e with
      | src p d =>
        simp only [srcOf, List.reverse_cons, lookup_append, lookup]
        cases lookup (srcOf es).reverse q with
        | some x => rfl
        | none =>
          by_cases hq : p = q
          · simp [hq]
          · have : ¬ q = p := fun e => hq e.symm
            simp [hq, this]
      | dst p d => simp [srcOf]
    · intro q
      rw [hdg q, pstep_dst_get h1 q]
      cases e with
      | dst p d =>
        simp only [dstOf, List.reverse_cons, lookup_append, lookup]
        cases lookup (dstOf es).reverse q with
        | some x => rfl
        | none =>
          by_cases hq : p = q
          · simp [hq]
          · have : ¬ q = p := fun e => hq e.symm
            simp [hq, this]
      | src p d => simp [dstOf]

end Rj

namespace Rj

theorem lookup_eq_some_iff {V : Type} (l : List (String × V)) (nd : (l.map (·.1)).Nodup) (q : String) (d : V) :
    lookup l q = some d ↔ (q, d) ∈ l := by
  induction l with
  | nil => simp [lookup]
  | cons x xs ih =>
    obtain ⟨k, v⟩ := x
    simp only [List.map_cons, List.nodup_cons] at nd
    simp only [lookup, List.mem_cons, Prod.mk.injEq]
    split
    · next e =>
      subst e
      constructor
      · intro h; cases h; exact Or.inl ⟨rfl, rfl⟩
      · rintro (⟨_, rfl⟩ | h)
        · rfl
        · exact absurd (List.mem_map_of_mem (f := (·.1)) h) nd.1
    · next e =>
      rw [ih nd.2]
      constructor
      · exact Or.inr
      · rintro (⟨rfl, _⟩ | h)
        · exact absurd rfl e
        · exact h

theorem lookup_perm {V : Type} (l1 l2 : List (String × V)) (h : l1.Perm l2) (nd : (l1.map (·.1)).Nodup)
    (q : String) : lookup l1 q = lookup l2 q := by
  have nd2 : (l2.map (·.1)).Nodup := (h.map (·.1)).nodup_iff.mp nd
  apply Option.ext
  intro d
  rw [lookup_eq_some_iff l1 nd, lookup_eq_some_iff l2 nd2]
  exact h.mem_iff

/-! ### iteration order -/

theorem keys_sublist_vec {V : Type} (m : OMap V) : m.keys.Sublist m.vec := by
  unfold OMap.keys OMap.iter
  generalize m.vec = v
  induction v with
  | nil => simp
  | cons k ks ih =>
    simp only [List.filterMap_cons]
    cases h : m.get k with
    | none => simp only [Option.map_none]; exact ih.cons _
    | some x => simp only [Option.map_some, List.map_cons]; exact ih.cons_cons _

/-- `to_delete` only grows on destination arrivals, `to_copy` only on source arrivals, and each
arrival pushes its own path at most once. -/
theorem pstep_vecs {c : PCfg} {s s' : PState} {e : Ev} (h : pstep c s e = some s') :
    match e with
    | .src p _ => s'.del.vec = s.del.vec ∧ (s'.cpy.vec = s.cpy.vec ∨ s'.cpy.vec = s.cpy.vec ++ [p])
    | .dst p _ => s'.cpy.vec = s.cpy.vec ∧ (s'.del.vec = s.del.vec ∨ s'.del.vec = s.del.vec ++ [p]) := by
  cases e with
  | src p d =>
    simp only [pstep] at h
    split at h
    · cases h; simp
    · split at h
      · simp only [Option.map_eq_some_iff] at h
        obtain ⟨del', hu, rfl⟩ := h
        simp [OMap.vec_update _ _ _ _ hu]
      · split at h <;> cases h <;> simp
  | dst p d =>
    simp only [pstep] at h
    split at h
    · cases h; simp
    · split at h
      · cases h; simp
      · split at h
        · simp only [Option.map_eq_some_iff] at h
          obtain ⟨cpy', hu, rfl⟩ := h
          simp [OMap.vec_update _ _ _ _ hu]
        · cases h; simp

theorem prun_vecs (c : PCfg) (evs : List Ev) : ∀ (s s' : PState), prun c s evs = some s' →
    (∃ X, s'.del.vec = s.del.vec ++ X ∧ X.Sublist ((dstOf evs).map (·.1))) ∧
    (∃ Y, s'.cpy.vec = s.cpy.vec ++ Y ∧ Y.Sublist ((srcOf evs).map (·.1))) := by
  induction evs with
  | nil => intro s s' h; simp only [prun] at h; cases h; exact ⟨⟨[], by simp, by simp [dstOf]⟩, ⟨[], by simp, by simp [srcOf]⟩⟩
  | cons e es ih =>
    intro s s' h
    simp only [prun] at h
    cases h1 : pstep c s e with
    | none => simp [h1] at h
    | some s1 =>
      simp only [h1, Option.bind_some] at h
      obtain ⟨⟨X, hX, sX⟩, ⟨Y, hY, sY⟩⟩ := ih s1 s' h
      have hv := pstep_vecs h1
      cases e with
      | src p d =>
        simp only at hv
        obtain ⟨hd, hc⟩ := hv
        refine ⟨⟨X, by rw [hX, hd], by simpa [dstOf] using sX⟩, ?_⟩
        rcases hc with hc | hc
        · exact ⟨Y, by rw [hY, hc], by simp only [srcOf, List.map_cons]; exact sY.cons p⟩
        · exact ⟨p :: Y, by rw [hY, hc]; simp, by simp only [srcOf, List.map_cons]; exact sY.cons_cons p⟩
      | dst p d =>
        simp only at hv
        obtain ⟨hc, hd⟩ := hv
        refine ⟨?_, ⟨Y, by rw [hY, hc], by simpa [srcOf] using sY⟩⟩
        rcases hd with hd | hd
        · exact ⟨X, by rw [hX, hd], by simp only [dstOf, List.map_cons]; exact sX.cons p⟩
        · exact ⟨p :: X, by rw [hX, hd]; simp, by simp only [dstOf, List.map_cons]; exact sX.cons_cons p⟩

end Rj
