import RjModel.Model.LinkText
/-! Lemmas about the link-text model: split/join, idempotence of the normal form, UTF-8 round trip. -/
namespace Rj

theorem splitSlash_ne_nil (s : List Char) : splitSlash s ≠ [] := by
  induction s with
  | nil => simp [splitSlash]
  | cons c cs ih =>
    simp only [splitSlash]
    split
    · simp
    · split <;> simp

theorem splitSlash_no_slash (s : List Char) : ∀ p ∈ splitSlash s, '/' ∉ p := by
  induction s with
  | nil => simp [splitSlash]
  | cons c cs ih =>
    simp only [splitSlash]
    split
    · next h => exact absurd h (splitSlash_ne_nil cs)
    · next h t heq =>
      rw [heq] at ih
      by_cases hc : c = '/'
      · simp only [hc, ↓reduceIte]
        intro p hp
        simp only [List.mem_cons] at hp
        rcases hp with rfl | hp
        · simp
        · exact ih p (by simpa using hp)
      · simp only [hc, ↓reduceIte]
        intro p hp
        simp only [List.mem_cons] at hp
        rcases hp with rfl | hp
        · have := ih h (by simp)
          simp only [List.mem_cons, not_or]
          exact ⟨fun e => hc e.symm, this⟩
        · exact ih p (by simp [hp])

theorem splitSlash_noslash {p : List Char} (h : '/' ∉ p) : splitSlash p = [p] := by
  induction p with
  | nil => simp [splitSlash]
  | cons c cs ih =>
    simp only [List.mem_cons, not_or] at h
    simp only [splitSlash, ih h.2]
    have : ¬ c = '/' := fun e => h.1 e.symm
    simp [this]

theorem splitSlash_append_slash {p : List Char} (h : '/' ∉ p) (r : List Char) :
    splitSlash (p ++ '/' :: r) = p :: splitSlash r := by
  induction p with
  | nil =>
    simp only [List.nil_append, splitSlash]
    cases hr : splitSlash r with
    | nil => exact absurd hr (splitSlash_ne_nil r)
    | cons a b => simp
  | cons c cs ih =>
    simp only [List.mem_cons, not_or] at h
    simp only [List.cons_append, splitSlash, ih h.2]
    have : ¬ c = '/' := fun e => h.1 e.symm
    simp [this]

theorem splitSlash_joinSlash (cs : List (List Char)) (hne : cs ≠ []) (h : ∀ p ∈ cs, '/' ∉ p) :
    splitSlash (joinSlash cs) = cs := by
  induction cs with
  | nil => exact absurd rfl hne
  | cons p rest ih =>
    cases rest with
    | nil => simpa [joinSlash] using splitSlash_noslash (h p (by simp))
    | cons q rest' =>
      simp only [joinSlash]
      rw [splitSlash_append_slash (h p (by simp))]
      rw [ih (by simp) (fun x hx => h x (by simp [hx]))]

def keep (p : List Char) : Bool := p ≠ [] && p ≠ ['.']

/-- the component normalisation on the split parts -/
def normParts : List (List Char) → List (List Char)
  | ['.'] :: t => ['.'] :: t.filter keep
  | l => l.filter keep

theorem components_eq (s : List Char) : components s = normParts (splitSlash s) := by
  have hk : (fun p : List Char => decide (p ≠ [] ∧ p ≠ ['.'])) = keep := by
    funext p; simp [keep]
  unfold components normParts
  split <;> simp_all

theorem normParts_of_kept (f : List (List Char)) (h : ∀ p ∈ f, keep p = true) : normParts f = f := by
  unfold normParts
  split
  · next t => have := h ['.'] (by simp); simp [keep] at this
  · exact List.filter_eq_self.mpr h

theorem normParts_idem (parts : List (List Char)) : normParts (normParts parts) = normParts parts := by
  cases hp : parts with
  | nil => simp [normParts]
  | cons a t =>
    by_cases ha : a = ['.']
    · subst ha
      simp only [normParts, List.filter_filter, Bool.and_self]
    · have e : normParts (a :: t) = (a :: t).filter keep := by
        unfold normParts; split
        · next heq => cases heq; exact absurd rfl ha
        · rfl
      rw [e]
      exact normParts_of_kept _ (fun p hp => (List.mem_filter.mp hp).2)

theorem normParts_sub (parts : List (List Char)) : ∀ p ∈ normParts parts, p ∈ parts ∧ p ≠ [] := by
  intro p hp
  unfold normParts at hp
  split at hp
  · simp only [List.mem_cons] at hp
    rcases hp with rfl | hp
    · simp
    · have := List.mem_filter.mp hp
      refine ⟨by simp [this.1], ?_⟩
      have h2 := this.2; simp [keep] at h2; exact h2.1
  · have := List.mem_filter.mp hp
    refine ⟨this.1, ?_⟩
    have h2 := this.2; simp [keep] at h2; exact h2.1

theorem normParts_no_slash (parts : List (List Char)) (h : ∀ p ∈ parts, '/' ∉ p) : ∀ p ∈ normParts parts, '/' ∉ p :=
  fun p hp => h p (normParts_sub parts p hp).1

theorem normParts_ne_empty (parts : List (List Char)) : ∀ p ∈ normParts parts, p ≠ [] :=
  fun p hp => (normParts_sub parts p hp).2

/-- **the normal form is a fixed point of the component normalisation** -/
theorem components_normalForm (t : List Char) : components (normalForm t) = components t := by
  simp only [normalForm, components_eq]
  by_cases hne : normParts (splitSlash t) = []
  · rw [hne]; simp [joinSlash, splitSlash, normParts, keep]
  · rw [splitSlash_joinSlash _ hne (normParts_no_slash _ (splitSlash_no_slash t)), normParts_idem]

theorem joinSlash_head (cs : List (List Char)) (h : ∀ p ∈ cs, p ≠ [] ∧ '/' ∉ p) : (joinSlash cs).head? ≠ some '/' := by
  cases cs with
  | nil => simp [joinSlash]
  | cons p rest =>
    obtain ⟨h1, h2⟩ := h p (by simp)
    cases p with
    | nil => exact absurd rfl h1
    | cons c cs' =>
      simp only [List.mem_cons, not_or] at h2
      cases rest <;> simp [joinSlash] <;> exact fun e => h2.1 e.symm

theorem refused_normalForm (t : List Char) (h : refused t = false) : refused (normalForm t) = false := by
  simp only [refused, Bool.or_eq_false_iff] at *
  refine ⟨?_, ?_⟩
  · have := joinSlash_head (components t) (fun p hp => by
      rw [components_eq] at hp
      exact ⟨normParts_ne_empty _ p hp, normParts_no_slash _ (splitSlash_no_slash t) p hp⟩)
    simp only [normalForm]; exact decide_eq_false this
  · rw [components_normalForm]; exact h.2

theorem decode_utf8 (t : List Char) : decodeUtf8 (utf8 t) = some t := by
  simp only [decodeUtf8, utf8, String.toUTF8_eq_toByteArray, String.toByteArray_ofList, Array.toArray_toList]
  have : (⟨t.utf8Encode.data⟩ : ByteArray) = t.utf8Encode := rfl
  rw [this, List.utf8Decode?_utf8Encode]; simp

theorem map_slash_id (l : List Char) : l.map (fun c => if c = '/' then '/' else c) = l := by
  induction l with
  | nil => rfl
  | cons c cs ih => simp only [List.map_cons, ih]; split <;> simp_all

end Rj
