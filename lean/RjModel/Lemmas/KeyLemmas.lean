import RjModel.Model.Key
namespace Rj.Key

theorem hexVal_digit : ∀ d, d < 16 → hexVal (hexDigit d) = some d := by decide

theorem parse_fmt (bs : List Nat) (acc : Nat) (h : ∀ b ∈ bs, b < 256) :
    parseFrom acc (fmt bs) = some (fromBE acc bs) := by
  induction bs generalizing acc with
  | nil => rfl
  | cons b bs ih =>
    have hb : b < 256 := h b (List.mem_cons_self ..)
    have h1 : b / 16 < 16 := by omega
    have h2 : b % 16 < 16 := by omega
    simp only [fmt, parseFrom, hexVal_digit _ h1, hexVal_digit _ h2, fromBE]
    rw [ih _ (fun x hx => h x (List.mem_cons_of_mem _ hx))]
    congr 2; omega

theorem fromBE_acc (bs : List Nat) (acc : Nat) :
    fromBE acc bs = acc * 256 ^ bs.length + fromBE 0 bs := by
  induction bs generalizing acc with
  | nil => simp [fromBE]
  | cons b bs ih =>
    simp only [fromBE, List.length_cons, Nat.zero_mul, Nat.zero_add]
    rw [ih (acc * 256 + b), ih b]
    simp only [Nat.pow_succ]
    generalize 256 ^ bs.length = P
    rw [Nat.add_mul, Nat.mul_assoc, Nat.mul_comm 256 P]; omega

theorem fromBE_lt (bs : List Nat) (h : ∀ b ∈ bs, b < 256) : fromBE 0 bs < 256 ^ bs.length := by
  induction bs with
  | nil => simp [fromBE]
  | cons b bs ih =>
    have hb : b < 256 := h b (List.mem_cons_self ..)
    have := ih (fun x hx => h x (List.mem_cons_of_mem _ hx))
    simp only [fromBE, List.length_cons]; rw [fromBE_acc]
    simp only [Nat.zero_mul, Nat.zero_add, Nat.pow_succ]
    have hp : 0 < 256 ^ bs.length := Nat.pow_pos (by omega)
    calc b * 256 ^ bs.length + fromBE 0 bs < b * 256 ^ bs.length + 256 ^ bs.length := by omega
      _ = (b + 1) * 256 ^ bs.length := by rw [Nat.add_mul]; omega
      _ ≤ 256 * 256 ^ bs.length := Nat.mul_le_mul_right _ (by omega)
      _ = 256 ^ bs.length * 256 := Nat.mul_comm ..

theorem toBE_fromBE (bs : List Nat) (h : ∀ b ∈ bs, b < 256) : toBE bs.length (fromBE 0 bs) = bs := by
  induction bs with
  | nil => rfl
  | cons b bs ih =>
    have hb : b < 256 := h b (List.mem_cons_self ..)
    have hrest := fun x hx => h x (List.mem_cons_of_mem _ hx)
    have hlt := fromBE_lt bs hrest
    simp only [List.length_cons, toBE, fromBE]
    rw [fromBE_acc]; simp only [Nat.zero_mul, Nat.zero_add]
    have hp : 0 < 256 ^ bs.length := Nat.pow_pos (by omega)
    have hdiv : (b * 256 ^ bs.length + fromBE 0 bs) / 256 ^ bs.length = b := by
      rw [Nat.add_comm, Nat.add_mul_div_right _ _ hp, Nat.div_eq_of_lt hlt]; omega
    rw [hdiv, Nat.mod_eq_of_lt hb]
    congr 1
    -- the lower bytes do not see the leading byte
    have : ∀ n v w, toBE n (w * 256 ^ n + v) = toBE n v := by
      intro n; induction n with
      | zero => intros; rfl
      | succ k ihk =>
        intro v w
        simp only [toBE]
        have hk : 0 < 256 ^ k := Nat.pow_pos (by omega)
        congr 1
        · rw [Nat.pow_succ, show w * (256 ^ k * 256) + v = v + (w * 256) * 256 ^ k by
            rw [Nat.mul_comm (256 ^ k), ← Nat.mul_assoc]; omega,
            Nat.add_mul_div_right _ _ hk, Nat.add_mul_mod_self_right]
        · rw [Nat.pow_succ, show w * (256 ^ k * 256) + v = (w * 256) * 256 ^ k + v by
            rw [Nat.mul_comm (256 ^ k), ← Nat.mul_assoc]]
          exact ihk v (w * 256)
    rw [this]; exact ih hrest


end Rj.Key
