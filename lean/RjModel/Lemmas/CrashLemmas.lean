import RjModel.Lemmas.SyncLemmas
/-! Crash points.  The destination half of a sync is a sequence of calls; a crash (or a lost link, or a failing
call) leaves the destination in the state reached after some prefix of that sequence.  These lemmas describe
every such state and show that it is again a tree (root and its ancestors folders, every entry's parent a folder),
so that the mirror theorem applies to it: running the sync again repairs it (`Props/C08.lean`). -/
namespace Rj
open FS

/-- a destination entry directly beneath a folder that the plan deletes is itself deleted by the plan
(`hsafe`: it is not hidden by the filters) -/
theorem child_of_deleted_is_deleted {vis : FPath → Bool} {fs0 : FS} {r : FPath} {ld : List (FPath × Node)}
    {src : FPath → Option SEntry} {ls : List (FPath × SEntry)} (hw : DestWF vis fs0 r ld) (hs : SrcWF vis src ls)
    (hsafe : ∀ p c n, (p, Node.folder) ∈ planDel src ld → fs0.get (r ++ (p ++ [c])) = some n → vis (p ++ [c]) = true)
    (q : FPath) (n' : Node) (c : Comp) (n : Node)
    (hq : (q, n') ∈ planDel src ld) (hc : fs0.get (r ++ (q ++ [c])) = some n) :
    (q ++ [c], n) ∈ planDel src ld := by
  obtain ⟨hqld, hqdel⟩ := mem_planDel.mp hq
  obtain ⟨hqne, -, hqn⟩ := (hw.listed q n').mp hqld
  -- q is a folder in fs0
  have hqf : fs0.get (r ++ q) = some .folder := by
    have := hw.closed (q ++ [c]) (by simp) (by rw [hc]; simp)
    simpa using this
  have hn' : n' = .folder := by rw [hqn] at hqf; exact Option.some.inj hqf
  subst hn'
  have hcld : (q ++ [c], n) ∈ ld := (hw.listed _ _).mpr ⟨by simp, hsafe q c n hq hc, hc⟩
  have hsrcq : ¬ (src q = some .folder) := by
    intro e; simp [needDel, e, compatible] at hqdel
  have hsrcc : src (q ++ [c]) = none := by
    cases hsc : src (q ++ [c]) with
    | none => rfl
    | some e' =>
      exfalso
      have := hs.closed (q ++ [c]) (by simp) (by rw [hsc]; simp) (by simpa using hqne)
      simp only [List.dropLast_concat] at this
      exact hsrcq this
  exact mem_planDel.mpr ⟨hcld, by simp [needDel, hsrcc]⟩

/-- **Every state of the delete phase is a tree**: after any prefix `done` of the planned deletions the destination
below the root is still closed (every entry's parent is a folder) and the root is a folder. -/
theorem dels_prefix_closed {vis : FPath → Bool} {fs0 : FS} {r : FPath} {ld : List (FPath × Node)}
    {src : FPath → Option SEntry} {ls : List (FPath × SEntry)} (hw : DestWF vis fs0 r ld) (hs : SrcWF vis src ls)
    (hsafe : ∀ p c n, (p, Node.folder) ∈ planDel src ld → fs0.get (r ++ (p ++ [c])) = some n → vis (p ++ [c]) = true)
    (done rest : List (FPath × Node)) (hsplit : planDel src ld = done ++ rest) (fs : FS)
    (hin : ∀ p, fs.get (r ++ p) = if p ∈ done.map (·.1) then none else fs0.get (r ++ p)) :
    fs.get r = some .folder ∧
    ∀ p, p ≠ [] → fs.get (r ++ p) ≠ none → fs.get (r ++ p.dropLast) = some .folder := by
  have hkeys_ne : ∀ q, q ∈ done.map (·.1) → q ≠ [] := by
    intro q hq
    have : q ∈ (planDel src ld).map (·.1) := by
      rw [hsplit, List.map_append]; exact List.mem_append_left _ hq
    obtain ⟨_, _, _, h3⟩ := dels_key_listed hw this
    exact h3
  have hroot : fs.get r = some .folder := by
    have := hin []
    simp only [List.append_nil] at this
    rw [this]
    have : ([] : FPath) ∉ done.map (·.1) := fun h => hkeys_ne [] h rfl
    simp [this, hw.rootFolder]
  refine ⟨hroot, ?_⟩
  intro p hpne hp
  have hpnot : p ∉ done.map (·.1) := by
    intro h; rw [hin p] at hp; simp [h] at hp
  have hp0 : fs0.get (r ++ p) ≠ none := by
    rw [hin p] at hp; simpa [hpnot] using hp
  have hq0 := hw.closed p hpne hp0
  have hqnot : p.dropLast ∉ done.map (·.1) := by
    intro hmem
    obtain ⟨a, ha, e1⟩ := List.mem_map.mp hmem
    have hamem : a ∈ planDel src ld := by rw [hsplit]; exact List.mem_append_left _ ha
    obtain ⟨n, hn⟩ := Option.ne_none_iff_exists'.mp hp0
    have hshape : p = p.dropLast ++ [p.getLast hpne] := (List.dropLast_concat_getLast hpne).symm
    have hc : fs0.get (r ++ (a.1 ++ [p.getLast hpne])) = some n := by rw [e1, ← hshape]; exact hn
    have hchild := child_of_deleted_is_deleted hw hs hsafe a.1 a.2 (p.getLast hpne) n hamem hc
    rw [e1, ← hshape, hsplit] at hchild
    rcases List.mem_append.mp hchild with h1 | h1
    · exact hpnot (List.mem_map.mpr ⟨_, h1, rfl⟩)
    · have hpw := planDel_pairwise (src := src) hw.parentFirst
      rw [hsplit, List.pairwise_append] at hpw
      have := hpw.2.2 a ha (p, n) h1
      apply this
      rw [e1]
      exact List.dropLast_prefix p
  rw [hin p.dropLast]
  simp [hqnot, hq0]

/-- **Every state of the copy phase is a tree**: after all planned deletions and any prefix `done` of the planned
creations the destination below the root is closed and the root is a folder. -/
theorem cpys_prefix_closed {vis : FPath → Bool} {fs0 : FS} {r : FPath} {ld : List (FPath × Node)}
    {src : FPath → Option SEntry} {ls : List (FPath × SEntry)} (hw : DestWF vis fs0 r ld) (hs : SrcWF vis src ls)
    (hsafe : ∀ p c n, (p, Node.folder) ∈ planDel src ld → fs0.get (r ++ (p ++ [c])) = some n → vis (p ++ [c]) = true)
    (done rest : List (FPath × SEntry)) (hsplit : planCpy (fun p => fs0.get (r ++ p)) ls = done ++ rest) (fs : FS)
    (hin : ∀ q, fs.get (r ++ q) = if q ∈ done.map (·.1) then (src q).map written else afterDels fs0 r src ld q) :
    fs.get r = some .folder ∧
    ∀ p, p ≠ [] → fs.get (r ++ p) ≠ none → fs.get (r ++ p.dropLast) = some .folder := by
  -- facts about the keys of the copy plan
  have hkey : ∀ a, a ∈ done → a.1 ≠ [] ∧ vis a.1 = true ∧ src a.1 = some a.2 ∧ needCpy (fun p => fs0.get (r ++ p)) a = true := by
    intro a ha
    have hamem : a ∈ planCpy (fun p => fs0.get (r ++ p)) ls := by rw [hsplit]; exact List.mem_append_left _ ha
    obtain ⟨h1, h2⟩ := mem_planCpy.mp hamem
    obtain ⟨g1, g2, g3⟩ := (hs.listed a.1 a.2).mp h1
    exact ⟨g1, g2, g3, h2⟩
  have hnil_done : ([] : FPath) ∉ done.map (·.1) := by
    intro h
    obtain ⟨a, ha, e1⟩ := List.mem_map.mp h
    exact (hkey a ha).1 e1
  have hnil_del : ([] : FPath) ∉ (planDel src ld).map (·.1) := by
    intro h; obtain ⟨_, _, _, h3⟩ := dels_key_listed hw h; exact h3 rfl
  have hroot : fs.get r = some .folder := by
    have := hin []
    simp only [List.append_nil, hnil_done, ↓reduceIte, afterDels, hnil_del] at this
    rw [this]; exact hw.rootFolder
  refine ⟨hroot, ?_⟩
  -- a destination folder that stays: not deleted, and then not among the creations either
  have stays : ∀ q, fs0.get (r ++ q) = some .folder → q ∉ (planDel src ld).map (·.1) →
      fs.get (r ++ q) = some .folder := by
    intro q hq0 hqdel
    have hqdone : q ∉ done.map (·.1) := by
      intro hmem
      obtain ⟨a, ha, e1⟩ := List.mem_map.mp hmem
      obtain ⟨g1, g2, g3, g4⟩ := hkey a ha
      rw [e1] at g1 g2 g3
      -- src q = some a.2 needs copying although the destination holds a folder there: then a.2 is not a folder,
      -- so the folder is incompatible and planned for deletion
      have hnf : a.2 ≠ .folder := by
        intro e
        simp only [needCpy, e1, hq0] at g4
        rw [e] at g4
        simp [upToDate] at g4
      apply hqdel
      have hld : (q, Node.folder) ∈ ld := (hw.listed _ _).mpr ⟨g1, g2, hq0⟩
      have hnd : needDel src (q, Node.folder) = true := by
        simp only [needDel, g3]
        cases h2 : a.2 with
        | folder => exact absurd h2 hnf
        | file b m => simp [compatible]
        | link t => simp [compatible]
      exact List.mem_map.mpr ⟨(q, .folder), mem_planDel.mpr ⟨hld, hnd⟩, rfl⟩
    rw [hin q]
    simp [hqdone, afterDels, hqdel, hq0]
  intro p hpne hp
  by_cases hpd : p ∈ done.map (·.1)
  · -- p was created: its parent is a source folder, created before it or an up-to-date destination folder
    obtain ⟨a, ha, e1⟩ := List.mem_map.mp hpd
    obtain ⟨g1, g2, g3, g4⟩ := hkey a ha
    rw [e1] at g1 g2 g3
    by_cases hq : p.dropLast = []
    · rw [hq, List.append_nil]; exact hroot
    · have hsq : src p.dropLast = some .folder := hs.closed p hpne (by rw [g3]; simp) hq
      by_cases hqd : p.dropLast ∈ done.map (·.1)
      · rw [hin p.dropLast]; simp [hqd, hsq, written]
      · -- not among the creations done so far: then it needed no creation at all (else it would come first)
        have hvq : vis p.dropLast = true := by
          have := hs.visPrefix p (p.length - 1) g2
          rwa [← List.dropLast_eq_take] at this
        have hls : (p.dropLast, SEntry.folder) ∈ ls := (hs.listed _ _).mpr ⟨hq, hvq, hsq⟩
        have hnc : needCpy (fun p => fs0.get (r ++ p)) (p.dropLast, SEntry.folder) = false := by
          cases hnc : needCpy (fun p => fs0.get (r ++ p)) (p.dropLast, SEntry.folder) with
          | false => rfl
          | true =>
            exfalso
            have hm : (p.dropLast, SEntry.folder) ∈ planCpy (fun p => fs0.get (r ++ p)) ls := mem_planCpy.mpr ⟨hls, hnc⟩
            rw [hsplit] at hm
            rcases List.mem_append.mp hm with h1 | h1
            · exact hqd (List.mem_map.mpr ⟨_, h1, rfl⟩)
            · have hpw : (planCpy (fun p => fs0.get (r ++ p)) ls).Pairwise (fun a b => ¬ b.1 <+: a.1) := by
                unfold planCpy; exact hs.parentFirst.filter _
              rw [hsplit, List.pairwise_append] at hpw
              have := hpw.2.2 a ha _ h1
              apply this
              rw [e1]
              exact List.dropLast_prefix p
        have hq0 : fs0.get (r ++ p.dropLast) = some .folder := by
          simp only [needCpy] at hnc
          cases hg : fs0.get (r ++ p.dropLast) with
          | none => simp [hg] at hnc
          | some n =>
            simp only [hg] at hnc
            cases n <;> simp_all [upToDate]
        apply stays p.dropLast hq0
        intro hmem
        obtain ⟨n, hn1, hn2, -⟩ := dels_key_listed hw hmem
        rw [hq0] at hn1
        cases hn1
        simp [needDel, hsq, compatible] at hn2
  · -- p is what the delete phase left: so is its parent
    have hp' := hp
    rw [hin p] at hp'
    simp only [hpd, ↓reduceIte, afterDels] at hp'
    have hpdel : p ∉ (planDel src ld).map (·.1) := by
      intro h; simp [h] at hp'
    simp only [hpdel, ↓reduceIte] at hp'
    have hq0 := hw.closed p hpne hp'
    by_cases hq : p.dropLast = []
    · rw [hq, List.append_nil]; exact hroot
    · apply stays p.dropLast hq0
      intro hmem
      obtain ⟨a, ha, e1⟩ := List.mem_map.mp hmem
      obtain ⟨n, hn⟩ := Option.ne_none_iff_exists'.mp hp'
      have hshape : p = p.dropLast ++ [p.getLast hpne] := (List.dropLast_concat_getLast hpne).symm
      have hc : fs0.get (r ++ (a.1 ++ [p.getLast hpne])) = some n := by rw [e1, ← hshape]; exact hn
      have hchild := child_of_deleted_is_deleted hw hs hsafe a.1 a.2 (p.getLast hpne) n ha hc
      rw [e1, ← hshape] at hchild
      exact hpdel (List.mem_map.mpr ⟨_, hchild, rfl⟩)

end Rj
