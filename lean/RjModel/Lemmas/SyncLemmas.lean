import RjModel.Model.Sync
import RjModel.Lemmas.FSLemmas
import RjModel.Lemmas.LinkLemmas
/-! The destination half of a sync over the file-system model ends in the mirror state: lemmas. -/
namespace Rj
open FS

/-! ### path resolution and emptiness from `get` -/

theorem anc_ok (fs : FS) (pre rest : List Comp)
    (h : ∀ k, 0 < k → k < rest.length → fs.get (pre ++ rest.take k) = some .folder) : anc fs pre rest = .ok := by
  induction rest generalizing pre with
  | nil => rfl
  | cons c rest ih =>
    cases rest with
    | nil => rfl
    | cons c' rest' =>
      have h1 := h 1 (by omega) (by simp)
      simp only [List.take_succ_cons, List.take_zero] at h1
      simp only [anc, h1]
      apply ih
      intro k hk hk'
      have := h (k + 1) (by omega) (by simp at hk' ⊢; omega)
      simpa [List.take_succ_cons] using this

theorem ancestors_ok (fs : FS) (P : FPath)
    (h : ∀ k, 0 < k → k < P.length → fs.get (P.take k) = some .folder) : fs.ancestors P = .ok := by
  unfold FS.ancestors
  exact anc_ok fs [] P (by simpa using h)

theorem lookup_isSome_of_mem {β : Type} (l : List (FPath × β)) (q : FPath) (v : β) (h : (q, v) ∈ l) :
    (l.lookup q).isSome = true := by
  induction l with
  | nil => simp at h
  | cons e rest ih =>
    obtain ⟨k, w⟩ := e
    by_cases hk : q = k
    · subst hk; simp [List.lookup]
    · have hb : (q == k) = false := by simpa using hk
      simp only [List.lookup_cons, hb]
      apply ih
      simp only [List.mem_cons, Prod.mk.injEq] at h
      rcases h with ⟨e1, -⟩ | h
      · exact absurd e1 hk
      · exact h

theorem hasChild_false (fs : FS) (P : FPath) (h : ∀ c, fs.get (P ++ [c]) = none) : fs.hasChild P = false := by
  unfold FS.hasChild FS.childrenOf
  simp only [Bool.not_eq_false', List.isEmpty_iff, List.filter_eq_nil_iff, decide_eq_true_eq, not_and]
  intro e he hne hd
  obtain ⟨q, v⟩ := e
  simp only at hne hd
  have hq : q = P ++ [q.getLast hne] := by rw [← hd]; exact (List.dropLast_concat_getLast hne).symm
  have := h (q.getLast hne)
  rw [← hq] at this
  have hs := lookup_isSome_of_mem fs.nodes q v he
  simp only [FS.get, hne, ↓reduceIte] at this
  rw [this] at hs
  simp at hs

/-! ### tree-closed maps: every prefix of an existing path is a folder -/

theorem take_of_dropLast (p : FPath) (k : Nat) (hk : k < p.length - 1) : p.dropLast.take k = p.take k := by
  rw [List.dropLast_eq_take, List.take_take]
  congr 1; omega

theorem prefixes_folders {α : Type} (f : FPath → Option α) (dir : α)
    (hc : ∀ p, p ≠ [] → f p ≠ none → f p.dropLast = some dir)
    (p : FPath) (hp : f p ≠ none) (k : Nat) (hk : k < p.length) : f (p.take k) = some dir := by
  induction hn : p.length generalizing p k with
  | zero => omega
  | succ n ih =>
    have hne : p ≠ [] := by intro e; subst e; simp at hn
    have hd := hc p hne hp
    by_cases hk' : k = p.length - 1
    · rw [hk', ← List.dropLast_eq_take]; exact hd
    · have hlen : p.dropLast.length = n := by simp [hn]
      have := ih p.dropLast (by rw [hd]; simp) k (by rw [hlen]; omega) hlen
      rwa [take_of_dropLast p k (by omega)] at this

end Rj

namespace Rj
open FS

/-- what is assumed of the destination below the doer's root `r`, and of its listing -/
structure DestWF (vis : FPath → Bool) (fs : FS) (r : FPath) (ld : List (FPath × Node)) : Prop where
  rootFolder : fs.get r = some .folder
  rootAnc : ∀ k, k < r.length → fs.get (r.take k) = some .folder
  closed : ∀ p, p ≠ [] → fs.get (r ++ p) ≠ none → fs.get (r ++ p.dropLast) = some .folder
  /-- the listing holds exactly the entries the filters let through (`vis`) -/
  listed : ∀ p n, (p, n) ∈ ld ↔ (p ≠ [] ∧ vis p = true ∧ fs.get (r ++ p) = some n)
  parentFirst : ld.Pairwise (fun a b => ¬ b.1 <+: a.1)

/-- what is assumed of the source tree and its listing -/
structure SrcWF (vis : FPath → Bool) (src : FPath → Option SEntry) (ls : List (FPath × SEntry)) : Prop where
  closed : ∀ p, p ≠ [] → src p ≠ none → p.dropLast ≠ [] → src p.dropLast = some .folder
  listed : ∀ p e, (p, e) ∈ ls ↔ (p ≠ [] ∧ vis p = true ∧ src p = some e)
  /-- an excluded folder hides everything beneath it: what is visible has visible ancestors -/
  visPrefix : ∀ p k, vis p = true → vis (p.take k) = true
  parentFirst : ls.Pairwise (fun a b => ¬ b.1 <+: a.1)
  links : ∀ p t, src p = some (.link t) → (∃ b, t = readLinkB b) ∧ writeLinkB '/' t ≠ [] ∧ (0 : UInt8) ∉ writeLinkB '/' t

theorem mem_planDel {src : FPath → Option SEntry} {ld : List (FPath × Node)} {x : FPath × Node} :
    x ∈ planDel src ld ↔ x ∈ ld ∧ needDel src x = true := by
  simp [planDel, List.mem_filter]

theorem planDel_pairwise {src : FPath → Option SEntry} {ld : List (FPath × Node)}
    (h : ld.Pairwise (fun a b => ¬ b.1 <+: a.1)) : (planDel src ld).Pairwise (fun a b => ¬ a.1 <+: b.1) := by
  unfold planDel
  rw [List.pairwise_reverse]
  exact h.filter _

/-- all proper prefixes of an existing destination path below the root are folders -/
theorem dest_prefix_folder {vis : FPath → Bool} {fs : FS} {r : FPath} {ld : List (FPath × Node)} (hw : DestWF vis fs r ld)
    (p : FPath) (hp : fs.get (r ++ p) ≠ none) (k : Nat) (hk : k < p.length) : fs.get (r ++ p.take k) = some .folder := by
  have := prefixes_folders (fun q => fs.get (r ++ q)) Node.folder
    (fun q hq hq' => hw.closed q hq hq') p hp k hk
  exact this

/-- path resolution below the root succeeds when root, its ancestors and the prefixes below it are folders -/
theorem ancestors_below_root (fs : FS) (r p : FPath)
    (h1 : ∀ k, k < r.length → fs.get (r.take k) = some .folder)
    (h2 : fs.get r = some .folder)
    (h3 : ∀ k, 0 < k → k < p.length → fs.get (r ++ p.take k) = some .folder) :
    fs.ancestors (r ++ p) = .ok := by
  apply ancestors_ok
  intro k hk0 hk
  rw [List.take_append]
  by_cases hkr : k < r.length
  · have : k - r.length = 0 := by omega
    simp only [this, List.take_zero, List.append_nil]
    exact h1 k hkr
  · by_cases hkr' : k = r.length
    · subst hkr'; simp [h2]
    · have hr : r.take k = r := List.take_of_length_le (by omega)
      rw [hr]
      exact h3 (k - r.length) (by omega) (by simp at hk; omega)

theorem not_prefix_of_shorter (r : FPath) (k : Nat) (hk : k < r.length) : ¬ r <+: r.take k := by
  intro h
  have := h.length_le
  simp at this
  omega

end Rj

namespace Rj
open FS

theorem append_inj_left' (r p q : FPath) : r ++ q = r ++ p ↔ q = p := List.append_cancel_left_eq r q p ▸ Iff.rfl

/-- **The delete phase, any stretch of it.**  Processing the planned deletions in order, every call succeeds (no error, no
link followed), and afterwards exactly the planned paths are gone; nothing outside the root changed. -/
theorem run_dels_gen {vis : FPath → Bool} {fs0 : FS} {r : FPath} {ld : List (FPath × Node)} {src : FPath → Option SEntry}
    {ls : List (FPath × SEntry)} (hw : DestWF vis fs0 r ld) (hs : SrcWF vis src ls)
    (hsafe : ∀ p c n, (p, Node.folder) ∈ planDel src ld → fs0.get (r ++ (p ++ [c])) = some n → vis (p ++ [c]) = true)
    (todo rest : List (FPath × Node)) :
    ∀ (processed : List (FPath × Node)) (fs : FS),
      planDel src ld = processed ++ todo ++ rest →
      (∀ p, fs.get (r ++ p) = if p ∈ processed.map (·.1) then none else fs0.get (r ++ p)) →
      (∀ q, ¬ r <+: q → fs.get q = fs0.get q) →
      ∃ fs', runOps (fun f x => delOp f r x) fs todo = .ok fs' ∧
        (∀ p, fs'.get (r ++ p) = if p ∈ (processed ++ todo).map (·.1) then none else fs0.get (r ++ p)) ∧
        (∀ q, ¬ r <+: q → fs'.get q = fs0.get q) := by
  induction todo with
  | nil =>
    intro processed fs hsplit hin hout
    refine ⟨fs, rfl, ?_, hout⟩
    rw [List.append_nil]; exact hin
  | cons x todo' ih =>
    intro processed fs hsplit0 hin hout
    obtain ⟨p, n⟩ := x
    have hsplit : planDel src ld = processed ++ (p, n) :: (todo' ++ rest) := by rw [hsplit0]; simp
    have hpw := planDel_pairwise (src := src) hw.parentFirst
    rw [hsplit, List.pairwise_append] at hpw
    obtain ⟨-, hpw2, hcross⟩ := hpw
    have hxmem : (p, n) ∈ planDel src ld := by rw [hsplit]; simp
    obtain ⟨hxld, hxdel⟩ := mem_planDel.mp hxmem
    obtain ⟨hpne, -, hpn⟩ := (hw.listed p n).mp hxld
    -- nothing processed so far is a prefix of p
    have hnp : ∀ q, q <+: p → q ∉ processed.map (·.1) := by
      intro q hq hmem
      obtain ⟨a, ha, rfl⟩ := List.mem_map.mp hmem
      exact hcross a ha (p, n) (by simp) hq
    have hcur : fs.get (r ++ p) = some n := by
      rw [hin p]; simp [hnp p (List.prefix_refl p), hpn]
    have hroot : fs.get r = some .folder := by
      have := hin []
      simp only [List.append_nil] at this
      rw [this]
      have : ([] : FPath) ∉ processed.map (·.1) := by
        intro hmem
        obtain ⟨a, ha, e⟩ := List.mem_map.mp hmem
        have hamem : a ∈ planDel src ld := by rw [hsplit]; simp [ha]
        have := ((hw.listed a.1 a.2).mp (mem_planDel.mp hamem).1).1
        exact this e
      simp [this, hw.rootFolder]
    have hanc : fs.ancestors (r ++ p) = .ok := by
      apply ancestors_below_root fs r p
      · intro k hk
        rw [hout _ (not_prefix_of_shorter r k hk)]; exact hw.rootAnc k hk
      · exact hroot
      · intro k hk0 hk
        rw [hin (p.take k)]
        simp only [hnp (p.take k) (List.take_prefix k p), ↓reduceIte]
        exact dest_prefix_folder hw p (by rw [hpn]; simp) k hk
    have hrp : r ++ p ≠ [] := by simp [hpne]
    -- the call succeeds and removes exactly r ++ p
    have hop : delOp fs r (p, n) = .ok (fs.set (r ++ p) none) := by
      unfold delOp
      by_cases hfold : n = .folder
      · subst hfold
        simp only [FS.rmdir, withAnc, hanc, hcur]
        have hch : fs.hasChild (r ++ p) = false := by
          apply hasChild_false
          intro c
          have e : r ++ p ++ [c] = r ++ (p ++ [c]) := by simp
          rw [e, hin (p ++ [c])]
          by_cases hpr : (p ++ [c]) ∈ processed.map (·.1)
          · simp [hpr]
          · simp only [hpr, ↓reduceIte]
            cases hc : fs0.get (r ++ (p ++ [c])) with
            | none => rfl
            | some n' =>
              exfalso
              have hcld : (p ++ [c], n') ∈ ld := (hw.listed _ _).mpr ⟨by simp, hsafe p c n' hxmem hc, hc⟩
              have hsrcp : ¬ (src p = some .folder) := by
                intro e; simp [needDel, e, compatible] at hxdel
              have hsrcc : src (p ++ [c]) = none := by
                cases hsc : src (p ++ [c]) with
                | none => rfl
                | some e' =>
                  exfalso
                  have := hs.closed (p ++ [c]) (by simp) (by rw [hsc]; simp) (by simpa using hpne)
                  simp only [List.dropLast_concat] at this
                  exact hsrcp this
              have hcdel : (p ++ [c], n') ∈ planDel src ld := mem_planDel.mpr ⟨hcld, by simp [needDel, hsrcc]⟩
              rw [hsplit] at hcdel
              rcases List.mem_append.mp hcdel with h1 | h1
              · exact hpr (List.mem_map.mpr ⟨_, h1, rfl⟩)
              · rcases List.mem_cons.mp h1 with h2 | h2
                · have : p ++ [c] = p := (Prod.mk.inj h2).1
                  simp at this
                · have := (List.pairwise_cons.mp hpw2).1 _ h2
                  exact this (List.prefix_append p [c])
        simp [hch, hrp]
      · have : fs.unlink (r ++ p) = .ok (fs.set (r ++ p) none) := by
          simp only [FS.unlink, withAnc, hanc, hcur]
          cases n <;> simp_all
        cases n <;> simp_all
    -- continue with the rest
    have hin' : ∀ q, (fs.set (r ++ p) none).get (r ++ q) =
        if q ∈ (processed ++ [(p, n)]).map (·.1) then none else fs0.get (r ++ q) := by
      intro q
      rw [FS.get_set _ _ _ _ hrp]
      by_cases hq : q = p
      · subst hq; simp
      · have : r ++ q ≠ r ++ p := fun e => hq ((List.append_cancel_left_eq r q p).mp e)
        simp only [this, ↓reduceIte, hin q, List.map_append, List.map_cons, List.map_nil, List.mem_append,
          List.mem_cons, List.not_mem_nil, or_false, hq]
    have hout' : ∀ q, ¬ r <+: q → (fs.set (r ++ p) none).get q = fs0.get q := by
      intro q hq
      rw [FS.get_set _ _ _ _ hrp]
      have : q ≠ r ++ p := by intro e; subst e; exact hq (List.prefix_append r p)
      simp [this, hout q hq]
    obtain ⟨fs', hrun, h1, h2⟩ := ih (processed ++ [(p, n)]) (fs.set (r ++ p) none) (by simp [hsplit]) hin' hout'
    refine ⟨fs', by simp only [runOps, hop, OpR.bind]; exact hrun, ?_, h2⟩
    intro q; rw [h1 q, List.append_assoc]; rfl

/-- **The delete phase.**  Processing the planned deletions in order, every call succeeds (no error, no
link followed), and afterwards exactly the planned paths are gone; nothing outside the root changed. -/
theorem run_dels {vis : FPath → Bool} {fs0 : FS} {r : FPath} {ld : List (FPath × Node)} {src : FPath → Option SEntry}
    {ls : List (FPath × SEntry)} (hw : DestWF vis fs0 r ld) (hs : SrcWF vis src ls)
    (hsafe : ∀ p c n, (p, Node.folder) ∈ planDel src ld → fs0.get (r ++ (p ++ [c])) = some n → vis (p ++ [c]) = true)
    (todo : List (FPath × Node)) :
    ∀ (processed : List (FPath × Node)) (fs : FS),
      planDel src ld = processed ++ todo →
      (∀ p, fs.get (r ++ p) = if p ∈ processed.map (·.1) then none else fs0.get (r ++ p)) →
      (∀ q, ¬ r <+: q → fs.get q = fs0.get q) →
      ∃ fs', runOps (fun f x => delOp f r x) fs todo = .ok fs' ∧
        (∀ p, fs'.get (r ++ p) = if p ∈ (planDel src ld).map (·.1) then none else fs0.get (r ++ p)) ∧
        (∀ q, ¬ r <+: q → fs'.get q = fs0.get q) := by
  intro processed fs hsplit hin hout
  obtain ⟨fs', h1, h2, h3⟩ := run_dels_gen hw hs hsafe todo [] processed fs (by simpa using hsplit) hin hout
  exact ⟨fs', h1, by rw [hsplit]; exact h2, h3⟩

/-- **The delete phase without the safety hypothesis**: whatever the filters hide, the phase either succeeds (as in
`run_dels`) or stops with an *error* (a folder that still holds a hidden entry cannot be removed) — it never follows a
link (`escape`): every path it operates on is reached through real folders. -/
theorem run_dels_total {vis : FPath → Bool} {fs0 : FS} {r : FPath} {ld : List (FPath × Node)} {src : FPath → Option SEntry}
    {ls : List (FPath × SEntry)} (hw : DestWF vis fs0 r ld) (hs : SrcWF vis src ls)
    (todo : List (FPath × Node)) :
    ∀ (processed : List (FPath × Node)) (fs : FS),
      planDel src ld = processed ++ todo →
      (∀ p, fs.get (r ++ p) = if p ∈ processed.map (·.1) then none else fs0.get (r ++ p)) →
      (∀ q, ¬ r <+: q → fs.get q = fs0.get q) →
      (∃ fs', runOps (fun f x => delOp f r x) fs todo = .ok fs' ∧
        (∀ p, fs'.get (r ++ p) = if p ∈ (planDel src ld).map (·.1) then none else fs0.get (r ++ p)) ∧
        (∀ q, ¬ r <+: q → fs'.get q = fs0.get q)) ∨
      runOps (fun f x => delOp f r x) fs todo = .err := by
  induction todo with
  | nil =>
    intro processed fs hsplit hin hout
    refine Or.inl ⟨fs, rfl, ?_, hout⟩
    rw [hsplit, List.append_nil]; exact hin
  | cons x todo' ih =>
    intro processed fs hsplit hin hout
    obtain ⟨p, n⟩ := x
    have hpw := planDel_pairwise (src := src) hw.parentFirst
    rw [hsplit, List.pairwise_append] at hpw
    obtain ⟨-, hpw2, hcross⟩ := hpw
    have hxmem : (p, n) ∈ planDel src ld := by rw [hsplit]; simp
    obtain ⟨hxld, hxdel⟩ := mem_planDel.mp hxmem
    obtain ⟨hpne, -, hpn⟩ := (hw.listed p n).mp hxld
    -- nothing processed so far is a prefix of p
    have hnp : ∀ q, q <+: p → q ∉ processed.map (·.1) := by
      intro q hq hmem
      obtain ⟨a, ha, rfl⟩ := List.mem_map.mp hmem
      exact hcross a ha (p, n) (by simp) hq
    have hcur : fs.get (r ++ p) = some n := by
      rw [hin p]; simp [hnp p (List.prefix_refl p), hpn]
    have hroot : fs.get r = some .folder := by
      have := hin []
      simp only [List.append_nil] at this
      rw [this]
      have : ([] : FPath) ∉ processed.map (·.1) := by
        intro hmem
        obtain ⟨a, ha, e⟩ := List.mem_map.mp hmem
        have hamem : a ∈ planDel src ld := by rw [hsplit]; simp [ha]
        have := ((hw.listed a.1 a.2).mp (mem_planDel.mp hamem).1).1
        exact this e
      simp [this, hw.rootFolder]
    have hanc : fs.ancestors (r ++ p) = .ok := by
      apply ancestors_below_root fs r p
      · intro k hk
        rw [hout _ (not_prefix_of_shorter r k hk)]; exact hw.rootAnc k hk
      · exact hroot
      · intro k hk0 hk
        rw [hin (p.take k)]
        simp only [hnp (p.take k) (List.take_prefix k p), ↓reduceIte]
        exact dest_prefix_folder hw p (by rw [hpn]; simp) k hk
    have hrp : r ++ p ≠ [] := by simp [hpne]
    -- the call removes exactly r ++ p, or fails: it never escapes
    have hop : delOp fs r (p, n) = .ok (fs.set (r ++ p) none) ∨ delOp fs r (p, n) = .err := by
      unfold delOp
      by_cases hfold : n = .folder
      · subst hfold
        simp only [FS.rmdir, withAnc, hanc, hcur]
        cases hch : fs.hasChild (r ++ p) <;> simp [hrp]
      · have : fs.unlink (r ++ p) = .ok (fs.set (r ++ p) none) := by
          simp only [FS.unlink, withAnc, hanc, hcur]
          cases n <;> simp_all
        left
        cases n <;> simp_all
    -- continue with the rest
    have hin' : ∀ q, (fs.set (r ++ p) none).get (r ++ q) =
        if q ∈ (processed ++ [(p, n)]).map (·.1) then none else fs0.get (r ++ q) := by
      intro q
      rw [FS.get_set _ _ _ _ hrp]
      by_cases hq : q = p
      · subst hq; simp
      · have : r ++ q ≠ r ++ p := fun e => hq ((List.append_cancel_left_eq r q p).mp e)
        simp only [this, ↓reduceIte, hin q, List.map_append, List.map_cons, List.map_nil, List.mem_append,
          List.mem_cons, List.not_mem_nil, or_false, hq]
    have hout' : ∀ q, ¬ r <+: q → (fs.set (r ++ p) none).get q = fs0.get q := by
      intro q hq
      rw [FS.get_set _ _ _ _ hrp]
      have : q ≠ r ++ p := by intro e; subst e; exact hq (List.prefix_append r p)
      simp [this, hout q hq]
    rcases hop with hop | hop
    · rcases ih (processed ++ [(p, n)]) (fs.set (r ++ p) none) (by simp [hsplit]) hin' hout' with ⟨fs', hrun, h1, h2⟩ | herr
      · exact Or.inl ⟨fs', by simp only [runOps, hop, OpR.bind]; exact hrun, h1, h2⟩
      · exact Or.inr (by simp only [runOps, hop, OpR.bind]; exact herr)
    · exact Or.inr (by simp only [runOps, hop, OpR.bind])

end Rj

namespace Rj
open FS

/-- the folders on the way to `r ++ p` -/
def WayOk (fs : FS) (P : FPath) : Prop := ∀ k, 0 < k → k < P.length → fs.get (P.take k) = some .folder

theorem wayOk_below_root (fs : FS) (r p : FPath)
    (h1 : ∀ k, k < r.length → fs.get (r.take k) = some .folder)
    (h2 : fs.get r = some .folder)
    (h3 : ∀ k, 0 < k → k < p.length → fs.get (r ++ p.take k) = some .folder) : WayOk fs (r ++ p) := by
  intro k hk0 hk
  rw [List.take_append]
  by_cases hkr : k < r.length
  · have : k - r.length = 0 := by omega
    simp only [this, List.take_zero, List.append_nil]
    exact h1 k hkr
  · by_cases hkr' : k = r.length
    · subst hkr'; simp [h2]
    · have hr : r.take k = r := List.take_of_length_le (by omega)
      rw [hr]
      exact h3 (k - r.length) (by omega) (by simp at hk; omega)

theorem wayOk_set {fs : FS} {P : FPath} (h : WayOk fs P) (hP : P ≠ []) (v : Option Node) : WayOk (fs.set P v) P := by
  intro k hk0 hk
  rw [FS.get_set _ _ _ _ hP]
  have : P.take k ≠ P := by
    intro e
    have := congrArg List.length e
    simp at this; omega
  simp [this, h k hk0 hk]

def GetSet (fs fs' : FS) (P : FPath) (v : Node) : Prop := ∀ q, fs'.get q = if q = P then some v else fs.get q

theorem mkdir_ok {fs : FS} {P : FPath} (hP : P ≠ []) (hw : WayOk fs P) (hc : fs.get P = none) :
    ∃ fs', fs.mkdir P = .ok fs' ∧ GetSet fs fs' P .folder := by
  refine ⟨fs.set P (some .folder), ?_, fun q => FS.get_set _ _ _ _ hP⟩
  simp [FS.mkdir, withAnc, ancestors_ok fs P hw, hc]

theorem mksymlink_ok {fs : FS} {P : FPath} {text : List UInt8} (hP : P ≠ []) (hw : WayOk fs P) (hc : fs.get P = none)
    (ht : text ≠ []) (h0 : (0 : UInt8) ∉ text) :
    ∃ fs', fs.mksymlink P text = .ok fs' ∧ GetSet fs fs' P (.symlink text) := by
  refine ⟨fs.set P (some (.symlink text)), ?_, fun q => FS.get_set _ _ _ _ hP⟩
  simp [FS.mksymlink, withAnc, ancestors_ok fs P hw, hc, ht, h0]

theorem putFile_ok {fs : FS} {P : FPath} (b : List UInt8) (m : Int) (hP : P ≠ []) (hw : WayOk fs P)
    (hc : fs.get P = none ∨ ∃ b' mt, fs.get P = some (.file b' mt)) :
    ∃ fs', putFile fs P b m = .ok fs' ∧ GetSet fs fs' P (.file b (.at m)) := by
  let fs1 := fs.set P (some (.file [] .fresh))
  have h1 : fs.createTrunc P = .ok fs1 := by
    rcases hc with hc | ⟨b', mt, hc⟩ <;> simp [FS.createTrunc, withAnc, ancestors_ok fs P hw, hc, fs1]
  have g1 : fs1.get P = some (.file [] .fresh) := by simp [fs1, FS.get_set _ _ _ _ hP]
  let fs2 := fs1.set P (some (.file b .fresh))
  have h2 : fs1.append P b = .ok fs2 := by
    simp only [FS.append, g1, List.nil_append, fs2]
    split <;> rfl
  have g2 : fs2.get P = some (.file b .fresh) := by simp [fs2, FS.get_set _ _ _ _ hP]
  have w2 : WayOk fs2 P := wayOk_set (wayOk_set hw hP _) hP _
  let fs3 := fs2.set P (some (.file b (.at m)))
  have h3 : fs2.setMtime P m = .ok fs3 := by
    simp [FS.setMtime, withAnc, ancestors_ok fs2 P w2, g2, fs3]
  refine ⟨fs3, by simp [putFile, h1, h2, h3, OpR.bind], ?_⟩
  intro q
  simp only [fs3, fs2, fs1, FS.get_set _ _ _ _ hP]
  by_cases hq : q = P <;> simp [hq]

end Rj

namespace Rj
open FS

/-- the destination below the root after the delete phase -/
def afterDels (fs0 : FS) (r : FPath) (src : FPath → Option SEntry) (ld : List (FPath × Node)) (q : FPath) : Option Node :=
  if q ∈ (planDel src ld).map (·.1) then none else fs0.get (r ++ q)

theorem mem_planCpy {dst : FPath → Option Node} {ls : List (FPath × SEntry)} {x : FPath × SEntry} :
    x ∈ planCpy dst ls ↔ x ∈ ls ∧ needCpy dst x = true := by
  simp [planCpy, List.mem_filter]

/-- the source's proper prefixes of an existing path are folders -/
theorem src_prefix_folder {vis : FPath → Bool} {src : FPath → Option SEntry} {ls : List (FPath × SEntry)} (hs : SrcWF vis src ls)
    (p : FPath) (hp : src p ≠ none) (k : Nat) (hk0 : 0 < k) (hk : k < p.length) : src (p.take k) = some .folder := by
  have hne : p ≠ [] := by intro e; subst e; simp at hk
  have := prefixes_folders (fun q => if q = [] then some SEntry.folder else src q) SEntry.folder
    (fun q hq hq' => by
      by_cases hd : q.dropLast = []
      · simp [hd]
      · simp only [hd, ↓reduceIte]
        simp only [hq, ↓reduceIte] at hq'
        exact hs.closed q hq hq' hd) p (by simp [hne, hp]) k hk
  have hne' : p.take k ≠ [] := by
    intro e
    have := congrArg List.length e
    rw [List.length_take, List.length_nil] at this; omega
  simpa [hne'] using this

theorem dels_key_listed {vis : FPath → Bool} {fs0 : FS} {r : FPath} {ld : List (FPath × Node)} {src : FPath → Option SEntry}
    (hw : DestWF vis fs0 r ld) {q : FPath} (h : q ∈ (planDel src ld).map (·.1)) :
    ∃ n, fs0.get (r ++ q) = some n ∧ needDel src (q, n) = true ∧ q ≠ [] := by
  obtain ⟨a, ha, rfl⟩ := List.mem_map.mp h
  obtain ⟨h1, h2⟩ := mem_planDel.mp ha
  obtain ⟨h3, -, h4⟩ := (hw.listed a.1 a.2).mp h1
  exact ⟨a.2, h4, h2, h3⟩

/-- **The copy phase, any stretch of it.** -/
theorem run_cpys_gen {vis : FPath → Bool} {fs0 : FS} {r : FPath} {ld : List (FPath × Node)} {src : FPath → Option SEntry}
    {ls : List (FPath × SEntry)} (hw : DestWF vis fs0 r ld) (hs : SrcWF vis src ls)
    (todo rest : List (FPath × SEntry)) :
    ∀ (processed : List (FPath × SEntry)) (fs : FS),
      planCpy (fun p => fs0.get (r ++ p)) ls = processed ++ todo ++ rest →
      (∀ q, fs.get (r ++ q) = if q ∈ processed.map (·.1) then (src q).map written else afterDels fs0 r src ld q) →
      (∀ q, ¬ r <+: q → fs.get q = fs0.get q) →
      ∃ fs', runOps (fun f x => cpyOp f r x) fs todo = .ok fs' ∧
        (∀ q, fs'.get (r ++ q) = if q ∈ (processed ++ todo).map (·.1) then (src q).map written
          else afterDels fs0 r src ld q) ∧
        (∀ q, ¬ r <+: q → fs'.get q = fs0.get q) := by
  induction todo with
  | nil =>
    intro processed fs hsplit hin hout
    refine ⟨fs, rfl, ?_, hout⟩
    rw [List.append_nil]; exact hin
  | cons x todo' ih =>
    intro processed fs hsplit0 hin hout
    obtain ⟨p, e⟩ := x
    have hsplit : planCpy (fun p => fs0.get (r ++ p)) ls = processed ++ (p, e) :: (todo' ++ rest) := by rw [hsplit0]; simp
    have hpw : (planCpy (fun p => fs0.get (r ++ p)) ls).Pairwise (fun a b => ¬ b.1 <+: a.1) := by
      unfold planCpy; exact hs.parentFirst.filter _
    rw [hsplit, List.pairwise_append] at hpw
    obtain ⟨-, hpw2, hcross⟩ := hpw
    have hxmem : (p, e) ∈ planCpy (fun p => fs0.get (r ++ p)) ls := by rw [hsplit]; simp
    obtain ⟨hxls, hxcpy⟩ := mem_planCpy.mp hxmem
    obtain ⟨hpne, hpvis, hpe⟩ := (hs.listed p e).mp hxls
    have hpnot : p ∉ processed.map (·.1) := by
      intro hmem
      obtain ⟨a, ha, e1⟩ := List.mem_map.mp hmem
      have := hcross a ha (p, e) (by simp)
      rw [← e1] at this
      exact this (List.prefix_refl _)
    have hnil_d : ([] : FPath) ∉ (planDel src ld).map (·.1) := by
      intro h; obtain ⟨_, _, _, h3⟩ := dels_key_listed hw h; exact h3 rfl
    have hnil_p : ([] : FPath) ∉ processed.map (·.1) := by
      intro hmem
      obtain ⟨a, ha, e1⟩ := List.mem_map.mp hmem
      have hamem : a ∈ planCpy (fun p => fs0.get (r ++ p)) ls := by rw [hsplit]; simp [ha]
      exact ((hs.listed a.1 a.2).mp (mem_planCpy.mp hamem).1).1 e1
    have hroot : fs.get r = some .folder := by
      have := hin []
      simp only [List.append_nil, hnil_p, ↓reduceIte, afterDels, hnil_d] at this
      rw [this]; exact hw.rootFolder
    -- every proper prefix of p below the root is a folder by now
    have hway : WayOk fs (r ++ p) := by
      apply wayOk_below_root fs r p
      · intro k hk
        rw [hout _ (not_prefix_of_shorter r k hk)]; exact hw.rootAnc k hk
      · exact hroot
      · intro k hk0 hk
        have hsq := src_prefix_folder hs p (by rw [hpe]; simp) k hk0 hk
        have hqne : p.take k ≠ [] := by
          intro e1
          have := congrArg List.length e1
          rw [List.length_take, List.length_nil] at this; omega
        have hqp : p.take k ≠ p := by
          intro e1
          have := congrArg List.length e1
          simp at this; omega
        rw [hin (p.take k)]
        by_cases hq : p.take k ∈ processed.map (·.1)
        · simp [hq, hsq, written]
        · simp only [hq, ↓reduceIte]
          -- not (to be) copied: the destination already holds a folder there, and it was not deleted
          have hnc : needCpy (fun p => fs0.get (r ++ p)) (p.take k, SEntry.folder) = false := by
            cases hnc : needCpy (fun p => fs0.get (r ++ p)) (p.take k, SEntry.folder) with
            | false => rfl
            | true =>
              exfalso
              have hm : (p.take k, SEntry.folder) ∈ planCpy (fun p => fs0.get (r ++ p)) ls :=
                mem_planCpy.mpr ⟨(hs.listed _ _).mpr ⟨hqne, hs.visPrefix p k hpvis, hsq⟩, hnc⟩
              rw [hsplit] at hm
              rcases List.mem_append.mp hm with h1 | h1
              · exact hq (List.mem_map.mpr ⟨_, h1, rfl⟩)
              · rcases List.mem_cons.mp h1 with h2 | h2
                · exact hqp (Prod.mk.inj h2).1
                · exact (List.pairwise_cons.mp hpw2).1 _ h2 (List.take_prefix k p)
          simp only [needCpy] at hnc
          cases hd : fs0.get (r ++ p.take k) with
          | none => simp [hd] at hnc
          | some n =>
            simp only [hd, Bool.not_eq_false'] at hnc
            have hn : n = .folder := by cases n <;> simp [upToDate] at hnc; rfl
            subst hn
            simp only [afterDels]
            have : p.take k ∉ (planDel src ld).map (·.1) := by
              intro h
              obtain ⟨n', h1, h2, -⟩ := dels_key_listed hw h
              rw [hd] at h1; cases h1
              simp [needDel, hsq, compatible] at h2
            simp [this, hd]
    have hrp : r ++ p ≠ [] := by simp [hpne]
    -- what is at p now
    have hcur : fs.get (r ++ p) = afterDels fs0 r src ld p := by rw [hin p]; simp [hpnot]
    have hcases : afterDels fs0 r src ld p = none ∨
        (∃ b m b' mt, e = .file b m ∧ afterDels fs0 r src ld p = some (.file b' mt)) := by
      simp only [needCpy] at hxcpy
      cases hd : fs0.get (r ++ p) with
      | none => left; simp [afterDels, hd]
      | some n =>
        simp only [hd, Bool.not_eq_true'] at hxcpy
        by_cases hcomp : compatible e n = true
        · right
          cases e <;> cases n <;> simp [compatible, upToDate] at hcomp hxcpy
          · next b m b' mt =>
            refine ⟨b, m, b', mt, rfl, ?_⟩
            simp only [afterDels]
            have : p ∉ (planDel src ld).map (·.1) := by
              intro h
              obtain ⟨n', h1, h2, -⟩ := dels_key_listed hw h
              rw [hd] at h1; cases h1
              simp [needDel, hpe, compatible] at h2
            simp [this, hd]
          · next t text => exact absurd hcomp hxcpy
        · left
          simp only [afterDels]
          have : p ∈ (planDel src ld).map (·.1) :=
            List.mem_map.mpr ⟨(p, n), mem_planDel.mpr ⟨(hw.listed _ _).mpr ⟨hpne, hpvis, hd⟩, by simp [needDel, hpe, hcomp]⟩, rfl⟩
          simp [this]
    -- the call succeeds and leaves `written e` at r ++ p
    have hop : ∃ fs1, cpyOp fs r (p, e) = .ok fs1 ∧ GetSet fs fs1 (r ++ p) (written e) := by
      unfold cpyOp
      cases e with
      | folder =>
        rcases hcases with hc | ⟨_, _, _, _, he, _⟩
        · exact mkdir_ok hrp hway (by rw [hcur, hc])
        · cases he
      | link t =>
        rcases hcases with hc | ⟨_, _, _, _, he, _⟩
        · obtain ⟨-, ht, h0⟩ := hs.links p t hpe
          exact mksymlink_ok hrp hway (by rw [hcur, hc]) ht h0
        · cases he
      | file b m =>
        apply putFile_ok b m hrp hway
        rcases hcases with hc | ⟨_, _, b', mt, _, hc⟩
        · left; rw [hcur, hc]
        · right; exact ⟨b', mt, by rw [hcur, hc]⟩
    obtain ⟨fs1, hop1, hgs⟩ := hop
    have hin' : ∀ q, fs1.get (r ++ q) =
        if q ∈ (processed ++ [(p, e)]).map (·.1) then (src q).map written else afterDels fs0 r src ld q := by
      intro q
      rw [hgs (r ++ q)]
      by_cases hq : q = p
      · subst hq; simp [hpe]
      · have : r ++ q ≠ r ++ p := fun e1 => hq ((List.append_cancel_left_eq r q p).mp e1)
        simp only [this, ↓reduceIte, hin q, List.map_append, List.map_cons, List.map_nil, List.mem_append,
          List.mem_cons, List.not_mem_nil, or_false, hq]
    have hout' : ∀ q, ¬ r <+: q → fs1.get q = fs0.get q := by
      intro q hq
      rw [hgs q]
      have : q ≠ r ++ p := by intro e1; subst e1; exact hq (List.prefix_append r p)
      simp [this, hout q hq]
    obtain ⟨fs', hrun, h1, h2⟩ := ih (processed ++ [(p, e)]) fs1 (by simp [hsplit]) hin' hout'
    refine ⟨fs', by simp only [runOps, hop1, OpR.bind]; exact hrun, ?_, h2⟩
    intro q; rw [h1 q, List.append_assoc]; rfl

/-- **The copy phase.** -/
theorem run_cpys {vis : FPath → Bool} {fs0 : FS} {r : FPath} {ld : List (FPath × Node)} {src : FPath → Option SEntry}
    {ls : List (FPath × SEntry)} (hw : DestWF vis fs0 r ld) (hs : SrcWF vis src ls)
    (todo : List (FPath × SEntry)) :
    ∀ (processed : List (FPath × SEntry)) (fs : FS),
      planCpy (fun p => fs0.get (r ++ p)) ls = processed ++ todo →
      (∀ q, fs.get (r ++ q) = if q ∈ processed.map (·.1) then (src q).map written else afterDels fs0 r src ld q) →
      (∀ q, ¬ r <+: q → fs.get q = fs0.get q) →
      ∃ fs', runOps (fun f x => cpyOp f r x) fs todo = .ok fs' ∧
        (∀ q, fs'.get (r ++ q) = if q ∈ (planCpy (fun p => fs0.get (r ++ p)) ls).map (·.1) then (src q).map written
          else afterDels fs0 r src ld q) ∧
        (∀ q, ¬ r <+: q → fs'.get q = fs0.get q) := by
  intro processed fs hsplit hin hout
  obtain ⟨fs', h1, h2, h3⟩ := run_cpys_gen hw hs todo [] processed fs (by simpa using hsplit) hin hout
  exact ⟨fs', h1, by rw [hsplit]; exact h2, h3⟩

end Rj

namespace Rj
open FS

/-- the mirror relation at one path: what the source holds there and what the destination ends up with -/
def MirrorAt (fs0 fs' : FS) (r p : FPath) : Option SEntry → Prop
  | none => fs'.get (r ++ p) = none
  | some .folder => fs'.get (r ++ p) = some .folder
  | some (.file b m) =>
      fs'.get (r ++ p) = some (.file b (.at m)) ∨
      ∃ b', fs0.get (r ++ p) = some (.file b' (.at m)) ∧ fs'.get (r ++ p) = some (.file b' (.at m))
  | some (.link t) => ∃ text, fs'.get (r ++ p) = some (.symlink text) ∧ readLinkB text = t

theorem readLinkB_roundtrip (b : List UInt8) : readLinkB (writeLinkB '/' (readLinkB b)) = readLinkB b := by
  unfold readLinkB
  cases h : decodeUtf8 b with
  | none => simp [writeLinkB, h]
  | some t =>
    by_cases hr : refused t = true
    · simp [hr, writeLinkB, h]
    · have hr' : refused t = false := by simpa using hr
      have hn : normalForm (normalForm t) = normalForm t := by
        show joinSlash (components (normalForm t)) = normalForm t
        rw [components_normalForm]; rfl
      simp only [hr', Bool.false_eq_true, ↓reduceIte, writeLinkB, String.toList_ofList, map_slash_id, decode_utf8,
        refused_normalForm t hr', hn]

/-- **The destination half of a sync ends in the mirror state** — for every destination tree below
the doer's root (tree-closed, completely listed, parents first) and every source tree (tree-closed,
listed parents first): executing the plan — deletions in reverse listing order, then creations in
source listing order — never fails, never follows a link, changes nothing outside the root, and
leaves at every relative path exactly what the source holds there (a same-time file and an equal
link are left as they are). -/
theorem sync_mirror {vis : FPath → Bool} {fs0 : FS} {r : FPath} {ld : List (FPath × Node)} {src : FPath → Option SEntry}
    {ls : List (FPath × SEntry)} (hw : DestWF vis fs0 r ld) (hs : SrcWF vis src ls)
    (hsafe : ∀ p c n, (p, Node.folder) ∈ planDel src ld → fs0.get (r ++ (p ++ [c])) = some n → vis (p ++ [c]) = true) :
    ∃ fs', syncDest fs0 r src ls ld = .ok fs' ∧
      (∀ q, ¬ r <+: q → fs'.get q = fs0.get q) ∧
      fs'.get r = some .folder ∧
      (∀ p, p ≠ [] → vis p = true → MirrorAt fs0 fs' r p (src p)) ∧
      (∀ p, vis p = false → fs'.get (r ++ p) = fs0.get (r ++ p)) := by
  obtain ⟨fs1, hd, hd1, hd2⟩ := run_dels hw hs hsafe (planDel src ld) [] fs0 (by simp) (by simp) (fun _ _ => rfl)
  obtain ⟨fs2, hc, hc1, hc2⟩ := run_cpys hw hs (planCpy (fun p => fs0.get (r ++ p)) ls) [] fs1 (by simp)
    (by intro q; simp only [List.map_nil, List.not_mem_nil, ↓reduceIte, afterDels]; exact hd1 q) hd2
  have hnil_d : ([] : FPath) ∉ (planDel src ld).map (·.1) := by
    intro h; obtain ⟨_, _, _, h3⟩ := dels_key_listed hw h; exact h3 rfl
  have hnil_c : ([] : FPath) ∉ (planCpy (fun p => fs0.get (r ++ p)) ls).map (·.1) := by
    intro hmem
    obtain ⟨a, ha, e1⟩ := List.mem_map.mp hmem
    exact ((hs.listed a.1 a.2).mp (mem_planCpy.mp ha).1).1 e1
  refine ⟨fs2, by simp [syncDest, hd, hc, OpR.bind], hc2, ?_, ?_, ?_⟩
  · have := hc1 []
    simp only [List.append_nil, hnil_c, ↓reduceIte, afterDels, hnil_d] at this
    rw [this]; exact hw.rootFolder
  rotate_left
  · -- what the filters hide is neither deleted nor written
    intro p hvis
    have hfin := hc1 p
    have h1 : p ∉ (planCpy (fun p => fs0.get (r ++ p)) ls).map (·.1) := by
      intro hmem
      obtain ⟨a, ha, e1⟩ := List.mem_map.mp hmem
      have := ((hs.listed a.1 a.2).mp (mem_planCpy.mp ha).1).2.1
      rw [e1, hvis] at this; cases this
    have h2 : p ∉ (planDel src ld).map (·.1) := by
      intro hmem
      obtain ⟨a, ha, e1⟩ := List.mem_map.mp hmem
      have := ((hw.listed a.1 a.2).mp (mem_planDel.mp ha).1).2.1
      rw [e1, hvis] at this; cases this
    simpa [h1, afterDels, h2] using hfin
  · intro p hpne hpvis
    have hfin := hc1 p
    cases hsp : src p with
    | none =>
      have hnot : p ∉ (planCpy (fun p => fs0.get (r ++ p)) ls).map (·.1) := by
        intro hmem
        obtain ⟨a, ha, e1⟩ := List.mem_map.mp hmem
        have := ((hs.listed a.1 a.2).mp (mem_planCpy.mp ha).1).2.2
        rw [e1, hsp] at this; cases this
      simp only [hnot, ↓reduceIte, afterDels] at hfin
      simp only [MirrorAt]
      rw [hfin]
      split
      · rfl
      · next hnd =>
        cases hg : fs0.get (r ++ p) with
        | none => rfl
        | some n =>
          exfalso; apply hnd
          exact List.mem_map.mpr ⟨(p, n), mem_planDel.mpr ⟨(hw.listed _ _).mpr ⟨hpne, hpvis, hg⟩, by simp [needDel, hsp]⟩, rfl⟩
    | some e =>
      by_cases hcp : p ∈ (planCpy (fun p => fs0.get (r ++ p)) ls).map (·.1)
      · -- copied: the path holds what was written
        simp only [hcp, ↓reduceIte, hsp, Option.map_some] at hfin
        cases e with
        | folder => simpa [MirrorAt, written] using hfin
        | file b m => left; simpa [written] using hfin
        | link t =>
          obtain ⟨⟨b, hb⟩, -, -⟩ := hs.links p t hsp
          refine ⟨writeLinkB '/' t, by simpa [written] using hfin, ?_⟩
          rw [hb]; exact readLinkB_roundtrip b
      · -- not copied: the destination already held an up-to-date entry, which was not deleted
        simp only [hcp, ↓reduceIte] at hfin
        have hnc : needCpy (fun p => fs0.get (r ++ p)) (p, e) = false := by
          cases hnc : needCpy (fun p => fs0.get (r ++ p)) (p, e) with
          | false => rfl
          | true =>
            exfalso; apply hcp
            exact List.mem_map.mpr ⟨(p, e), mem_planCpy.mpr ⟨(hs.listed _ _).mpr ⟨hpne, hpvis, hsp⟩, hnc⟩, rfl⟩
        simp only [needCpy] at hnc
        cases hg : fs0.get (r ++ p) with
        | none => simp [hg] at hnc
        | some n =>
          simp only [hg, Bool.not_eq_false'] at hnc
          have hnd : p ∉ (planDel src ld).map (·.1) := by
            intro h
            obtain ⟨n', h1, h2, -⟩ := dels_key_listed hw h
            rw [hg] at h1; cases h1
            have : compatible e n = true := by
              cases e <;> cases n <;> simp_all [upToDate, compatible]
            simp [needDel, hsp, this] at h2
          simp only [afterDels, hnd, ↓reduceIte, hg] at hfin
          cases e <;> cases n <;> simp [upToDate] at hnc
          · next b m b' mt =>
            cases mt with
            | fresh => simp [upToDate] at hnc
            | «at» m' =>
              simp only [upToDate, decide_eq_true_eq] at hnc
              subst hnc
              right; exact ⟨b', hg, hfin⟩
          · simpa [MirrorAt] using hfin
          · next t text => exact ⟨text, hfin, hnc.symm⟩

end Rj

namespace Rj
open FS

/-- **No run follows a link, successful or not**: without any assumption about what the filters hide, the
destination half of a sync ends `ok` or with an `err`or — never `escape`. -/
theorem sync_never_escapes {vis : FPath → Bool} {fs0 : FS} {r : FPath} {ld : List (FPath × Node)} {src : FPath → Option SEntry}
    {ls : List (FPath × SEntry)} (hw : DestWF vis fs0 r ld) (hs : SrcWF vis src ls) :
    (∃ fs', syncDest fs0 r src ls ld = .ok fs') ∨ syncDest fs0 r src ls ld = .err := by
  rcases run_dels_total hw hs (planDel src ld) [] fs0 (by simp) (by simp) (fun _ _ => rfl) with ⟨fs1, hd, hd1, hd2⟩ | herr
  · obtain ⟨fs2, hc, -, -⟩ := run_cpys hw hs (planCpy (fun p => fs0.get (r ++ p)) ls) [] fs1 (by simp)
      (by intro q; simp only [List.map_nil, List.not_mem_nil, ↓reduceIte, afterDels]; exact hd1 q) hd2
    exact Or.inl ⟨fs2, by simp [syncDest, hd, hc, OpR.bind]⟩
  · exact Or.inr (by simp [syncDest, herr, OpR.bind])

/-- after the mirror state is reached, nothing is left to delete and nothing to copy: the plan of a
second run against the destination as it now is (any complete listing `ld'` of it) is empty -/
theorem second_plan_empty {fs0 fs' : FS} {r : FPath} {src : FPath → Option SEntry}
    {ls : List (FPath × SEntry)} {ld' : List (FPath × Node)} {vis : FPath → Bool}
    (hm : ∀ p, p ≠ [] → vis p = true → MirrorAt fs0 fs' r p (src p))
    (hls : ∀ p e, (p, e) ∈ ls → p ≠ [] ∧ vis p = true ∧ src p = some e)
    (hld : ∀ p n, (p, n) ∈ ld' → p ≠ [] ∧ vis p = true ∧ fs'.get (r ++ p) = some n) :
    planDel src ld' = [] ∧ planCpy (fun p => fs'.get (r ++ p)) ls = [] := by
  constructor
  · simp only [planDel, List.reverse_eq_nil_iff, List.filter_eq_nil_iff]
    intro x hx
    obtain ⟨p, n⟩ := x
    obtain ⟨hp, hv, hg⟩ := hld p n hx
    have := hm p hp hv
    simp only [needDel]
    cases hs : src p with
    | none => simp [hs, MirrorAt, hg] at this
    | some e =>
      rw [hs] at this
      cases e with
      | folder => simp only [MirrorAt, hg, Option.some.injEq] at this; subst this; simp [compatible]
      | file b m =>
        simp only [MirrorAt, hg, Option.some.injEq] at this
        rcases this with h | ⟨b', -, h⟩ <;> (subst h; simp [compatible])
      | link t =>
        obtain ⟨text, h1, h2⟩ := this
        rw [hg] at h1; cases h1
        simp [compatible, h2]
  · simp only [planCpy, List.filter_eq_nil_iff]
    intro x hx
    obtain ⟨p, e⟩ := x
    obtain ⟨hp, hv, hs⟩ := hls p e hx
    have := hm p hp hv
    rw [hs] at this
    simp only [needCpy]
    cases e with
    | folder => simp only [MirrorAt] at this; simp [this, upToDate]
    | file b m =>
      simp only [MirrorAt] at this
      rcases this with h | ⟨b', -, h⟩ <;> simp [h, upToDate]
    | link t =>
      obtain ⟨text, h1, h2⟩ := this
      simp [h1, upToDate, h2]

end Rj

namespace Rj
open FS

theorem mem_of_lookup {β : Type} (l : List (FPath × β)) (q : FPath) (v : β) (h : l.lookup q = some v) : (q, v) ∈ l := by
  induction l with
  | nil => simp at h
  | cons e rest ih =>
    obtain ⟨k, w⟩ := e
    by_cases hk : q = k
    · subst hk; simp [List.lookup] at h; subst h; simp
    · have hb : (q == k) = false := by simpa using hk
      simp only [List.lookup_cons, hb] at h
      exact List.mem_cons_of_mem _ (ih h)

/-- a folder that still holds an entry — listed or hidden by the filters — cannot be removed -/
theorem hasChild_of_child (fs : FS) (P : FPath) (c : Comp) (n : Node) (h : fs.get (P ++ [c]) = some n) :
    fs.hasChild P = true := by
  unfold FS.hasChild FS.childrenOf
  have hne : P ++ [c] ≠ [] := by simp
  simp only [FS.get, hne, ↓reduceIte] at h
  have hm := mem_of_lookup _ _ _ h
  simp only [Bool.not_eq_true', List.isEmpty_eq_false_iff, ne_eq, List.filter_eq_nil_iff]
  intro hall
  have := hall (P ++ [c], n) hm
  simp at this

theorem rmdir_nonempty_fails (fs : FS) (P : FPath) (c : Comp) (n : Node) (h : fs.get (P ++ [c]) = some n) (fs' : FS) :
    fs.rmdir P ≠ .ok fs' := by
  intro hr
  obtain ⟨-, hr⟩ := withAnc_ok hr
  split at hr
  · simp [hasChild_of_child fs P c n h] at hr
  · simp at hr

end Rj

namespace Rj
open FS

theorem delOp_ok_eq {fs fs' : FS} {r : FPath} {x : FPath × Node} (h : delOp fs r x = .ok fs') :
    fs' = fs.set (r ++ x.1) none := by
  unfold delOp at h
  split at h
  · obtain ⟨-, h⟩ := withAnc_ok h
    split at h
    · split at h
      · cases h
      · cases h; rfl
    · cases h
  · obtain ⟨-, h⟩ := withAnc_ok h
    split at h
    · cases h
    · split at h
      · cases h
      · cases h; rfl
    · cases h

/-- an entry that no planned deletion names stays where it is, so the deletion of its folder cannot succeed -/
theorem dels_child_blocks (r : FPath) (todo : List (FPath × Node)) (fs : FS) (p : FPath) (c : Comp) (n : Node)
    (hchild : fs.get (r ++ (p ++ [c])) = some n) (hnot : ∀ x ∈ todo, x.1 ≠ p ++ [c])
    (hmem : (p, Node.folder) ∈ todo) (fs' : FS) :
    runOps (fun f x => delOp f r x) fs todo ≠ .ok fs' := by
  induction todo generalizing fs with
  | nil => simp at hmem
  | cons x rest ih =>
    intro hrun
    simp only [runOps] at hrun
    cases hop : delOp fs r x with
    | err => simp [hop, OpR.bind] at hrun
    | escape => simp [hop, OpR.bind] at hrun
    | ok fs1 =>
      simp only [hop, OpR.bind] at hrun
      by_cases hx : x = (p, Node.folder)
      · subst hx
        simp only [delOp] at hop
        have e : r ++ p ++ [c] = r ++ (p ++ [c]) := by simp
        exact rmdir_nonempty_fails fs (r ++ p) c n (by rw [e]; exact hchild) fs1 hop
      · have hfs1 := delOp_ok_eq hop
        have hne : r ++ (p ++ [c]) ≠ r ++ x.1 := by
          intro e
          exact hnot x (by simp) ((List.append_cancel_left_eq r _ _).mp e).symm
        have hne2 : r ++ x.1 ≠ [] := by
          intro e
          rw [e] at hne
          have : delOp fs r x = .ok fs1 := hop
          unfold delOp at this
          rw [e] at this
          split at this
          · obtain ⟨-, h⟩ := withAnc_ok this
            simp [FS.get] at h
          · obtain ⟨-, h⟩ := withAnc_ok this
            simp [FS.get] at h
        have hchild1 : fs1.get (r ++ (p ++ [c])) = some n := by
          rw [hfs1, FS.get_set _ _ _ _ hne2]
          simp [hne, hchild]
        have hmem' : (p, Node.folder) ∈ rest := by
          rcases List.mem_cons.mp hmem with h | h
          · exact absurd h.symm hx
          · exact h
        exact ih fs1 hchild1 (fun y hy => hnot y (List.mem_cons_of_mem _ hy)) hmem' hrun

/-- **A hidden entry beneath a folder that must go makes the run fail** — with an error, not by following a link, and
not silently: if the plan deletes the destination folder `p` while the destination holds, directly beneath it, an entry
the filters hide (so that no deletion names it), the destination half of the sync ends `err`. -/
theorem sync_hidden_child_fails {vis : FPath → Bool} {fs0 : FS} {r : FPath} {ld : List (FPath × Node)} {src : FPath → Option SEntry}
    {ls : List (FPath × SEntry)} (hw : DestWF vis fs0 r ld) (hs : SrcWF vis src ls)
    (p : FPath) (c : Comp) (n : Node) (hdel : (p, Node.folder) ∈ planDel src ld)
    (hchild : fs0.get (r ++ (p ++ [c])) = some n) (hhidden : vis (p ++ [c]) = false) :
    syncDest fs0 r src ls ld = .err := by
  rcases sync_never_escapes hw hs with ⟨fs', hok⟩ | herr
  · exfalso
    unfold syncDest at hok
    cases hd : runOps (fun f x => delOp f r x) fs0 (planDel src ld) with
    | err => simp [hd, OpR.bind] at hok
    | escape => simp [hd, OpR.bind] at hok
    | ok fs1 =>
      refine dels_child_blocks r (planDel src ld) fs0 p c n hchild ?_ hdel fs1 hd
      intro x hx e
      have := ((hw.listed x.1 x.2).mp (mem_planDel.mp hx).1).2.1
      rw [e, hhidden] at this
      cases this
  · exact herr

end Rj
