import RjModel.Lemmas.FSLemmas
/-! What one executed command may change (the doer's half of C02 and C12). -/
namespace Rj
open FS

theorem reply_ok {st st' : DoerSt} {r : OpR FS} {c : ErrClass} {out : List Resp} (h : reply st r c = .ok st' out) :
    (∃ fs', r = .ok fs' ∧ st' = { st with fs := fs' }) ∨ (r = .err ∧ st' = st) := by
  unfold reply at h
  split at h
  · simp only [XR.ok.injEq] at h; left; exact ⟨_, rfl, h.1.symm⟩
  · simp only [XR.ok.injEq] at h; right; exact ⟨rfl, h.1.symm⟩
  · simp at h

/-- the file systems before and after differ at most at `p` -/
def ChangesOnly (st st' : DoerSt) (p : FPath) : Prop := ∀ q, q ≠ p → st'.fs.get q = st.fs.get q

theorem reply_changesOnly {st st' : DoerSt} {r : OpR FS} {c : ErrClass} {out : List Resp} {p : FPath}
    (hr : ∀ fs', r = .ok fs' → FrameAt st.fs fs' p) (h : reply st r c = .ok st' out) : ChangesOnly st st' p := by
  rcases reply_ok h with ⟨fs', e, rfl⟩ | ⟨-, rfl⟩
  · exact hr fs' e
  · exact fun _ _ => rfl

theorem execCreateOrUpdate_changesOnly {st st' : DoerSt} {p : String} {full : FPath} {data : List UInt8}
    {mtime : Option Int} {more : Bool} {out : List Resp}
    (h : execCreateOrUpdate st p full data mtime more = .ok st' out) : ChangesOnly st st' full := by
  unfold execCreateOrUpdate at h
  split at h
  · simp only [XR.ok.injEq] at h; obtain ⟨rfl, -⟩ := h; exact fun _ _ => rfl
  · -- the handle / create step
    have key : ∀ fs1, (match st.inProg with
        | some q => if q = p then some (OpR.ok st.fs) else none
        | none => some (st.fs.createTrunc full)) = some (.ok fs1) → FrameAt st.fs fs1 full := by
      intro fs1 h1
      split at h1
      · split at h1
        · simp only [Option.some.injEq, OpR.ok.injEq] at h1; subst h1; exact frame_refl _ _
        · simp at h1
      · simp only [Option.some.injEq] at h1; exact createTrunc_frame h1
    simp only at h
    split at h
    · simp only [XR.ok.injEq] at h; obtain ⟨rfl, -⟩ := h; exact fun _ _ => rfl
    · simp at h
    · simp only [XR.ok.injEq] at h; obtain ⟨rfl, -⟩ := h; exact fun _ _ => rfl
    · next fs1 hop =>
      have f1 := key fs1 hop
      split at h
      · simp at h
      · simp only [XR.ok.injEq] at h; obtain ⟨rfl, -⟩ := h; exact f1
      · next fs2 happ =>
        have f2 := append_frame happ
        split at h
        · simp only [XR.ok.injEq] at h; obtain ⟨rfl, -⟩ := h
          intro q hq; simp only; rw [f2 q hq, f1 q hq]
        · next t =>
          rcases reply_ok h with ⟨fs3, e, rfl⟩ | ⟨-, rfl⟩
          · have f3 := setMtime_frame e
            intro q hq; simp only; rw [f3 q hq, f2 q hq, f1 q hq]
          · intro q hq; simp only; rw [f2 q hq, f1 q hq]

end Rj

namespace Rj
open FS

theorem execSetRoot_fs {st st' : DoerSt} {r : String} {out : List Resp} (h : execSetRoot st r = .ok st' out) : st'.fs = st.fs := by
  unfold execSetRoot at h
  simp only at h
  repeat' split at h
  all_goals first | (simp only [XR.ok.injEq] at h; obtain ⟨rfl, -⟩ := h; rfl) | (simp at h)

theorem execGetFileContent_fs {k : ChunkCfg} {st st' : DoerSt} {full : FPath} {out : List Resp}
    (h : execGetFileContent k st full = .ok st' out) : st'.fs = st.fs := by
  unfold execGetFileContent at h
  repeat' split at h
  all_goals first | (simp only [XR.ok.injEq] at h; obtain ⟨rfl, -⟩ := h; rfl) | (simp at h)

theorem fullOf_prefix {st : DoerSt} {p : String} {full : FPath} (h : fullOf st p = some full) :
    ∃ root sl, st.root = some (root, sl) ∧ root <+: full := by
  unfold fullOf at h
  split at h
  · next r sl cs hr hc => simp only [Option.some.injEq] at h; subst h; exact ⟨r, sl, hr, List.prefix_append _ _⟩
  · simp at h

/-- **What one executed command may change.**  Either nothing; or only the one path the command names
(the doer's root joined with the command's relative path); or, for `CreateRootAncestors`, missing
prefixes of the root's parent become folders. -/
theorem execCmd_effect (k : ChunkCfg) (keepOf : List FilterSpec → String → Bool) (st st' : DoerSt) (c : Cmd)
    (out : List Resp) (h : execCmd k keepOf st c = .ok st' out) :
    st'.fs = st.fs ∨
    (∃ p full, c.path? = some p ∧ fullOf st p = some full ∧ c.mutating = true ∧ ChangesOnly st st' full) ∨
    (∃ root sl, st.root = some (root, sl) ∧ c = .createRootAncestors ∧
      ∀ q, st'.fs.get q = st.fs.get q ∨ (st.fs.get q = none ∧ st'.fs.get q = some .folder ∧ q <+: root.dropLast)) := by
  cases c with
  | setRoot r => left; simp only [execCmd] at h; exact execSetRoot_fs h
  | marker ph => left; simp only [execCmd, XR.ok.injEq] at h; rw [← h.1]
  | shutdown => left; simp only [execCmd, XR.ok.injEq] at h; rw [← h.1]
  | getEntries fs =>
    left
    simp only [execCmd] at h
    repeat' split at h
    all_goals first | (simp only [XR.ok.injEq] at h; obtain ⟨rfl, -⟩ := h; rfl) | (simp at h)
  | createRootAncestors =>
    simp only [execCmd] at h
    split at h
    · simp at h
    · next root sl hr =>
      right; right
      refine ⟨root, sl, hr, rfl, ?_⟩
      rcases reply_ok h with ⟨fs', e, rfl⟩ | ⟨-, rfl⟩
      · intro q; have := mkdirAll_frame _ _ _ _ e q; simpa using this
      · intro q; exact Or.inl rfl
  | getFileContent p =>
    left
    simp only [execCmd, Cmd.path?] at h
    repeat' split at h
    all_goals first
      | (simp only [XR.ok.injEq] at h; obtain ⟨rfl, -⟩ := h; rfl)
      | (exact execGetFileContent_fs h)
      | (simp at h)
  | createOrUpdateFile p data mt more =>
    simp only [execCmd, Cmd.path?] at h
    split at h
    · simp at h
    · split at h
      · simp at h
      · next full hf =>
        split at h
        · -- trailing-slash root operated on itself: nothing is written
          left
          repeat' split at h
          all_goals first | (simp only [XR.ok.injEq] at h; obtain ⟨rfl, -⟩ := h; rfl) | (simp at h)
        · right; left; exact ⟨p, full, rfl, hf, rfl, execCreateOrUpdate_changesOnly h⟩
  | createFolder p =>
    simp only [execCmd, Cmd.path?] at h
    split at h
    · simp at h
    · split at h
      · simp at h
      · next full hf =>
        simp only [Cmd.isFolderOp, Bool.not_true, Bool.and_false, Bool.false_eq_true, ↓reduceIte] at h
        right; left
        exact ⟨p, full, rfl, hf, rfl, reply_changesOnly (fun _ e => mkdir_frame e) h⟩
  | deleteFolder p =>
    simp only [execCmd, Cmd.path?] at h
    split at h
    · simp at h
    · split at h
      · simp at h
      · next full hf =>
        simp only [Cmd.isFolderOp, Bool.not_true, Bool.and_false, Bool.false_eq_true, ↓reduceIte] at h
        right; left
        exact ⟨p, full, rfl, hf, rfl, reply_changesOnly (fun _ e => rmdir_frame e) h⟩
  | createSymlink p kd t =>
    simp only [execCmd, Cmd.path?] at h
    split at h
    · simp at h
    · split at h
      · simp at h
      · next full hf =>
        split at h
        · left
          repeat' split at h
          all_goals first | (simp only [XR.ok.injEq] at h; obtain ⟨rfl, -⟩ := h; rfl) | (simp at h)
        · right; left
          exact ⟨p, full, rfl, hf, rfl, reply_changesOnly (fun _ e => mksymlink_frame e) h⟩
  | deleteFile p =>
    simp only [execCmd, Cmd.path?] at h
    split at h
    · simp at h
    · split at h
      · simp at h
      · next full hf =>
        split at h
        · left
          repeat' split at h
          all_goals first | (simp only [XR.ok.injEq] at h; obtain ⟨rfl, -⟩ := h; rfl) | (simp at h)
        · right; left
          exact ⟨p, full, rfl, hf, rfl, reply_changesOnly (fun _ e => unlink_frame e) h⟩
  | deleteSymlink p kd =>
    simp only [execCmd, Cmd.path?] at h
    split at h
    · simp at h
    · split at h
      · simp at h
      · next full hf =>
        split at h
        · left
          repeat' split at h
          all_goals first | (simp only [XR.ok.injEq] at h; obtain ⟨rfl, -⟩ := h; rfl) | (simp at h)
        · right; left
          exact ⟨p, full, rfl, hf, rfl, reply_changesOnly (fun _ e => unlink_frame e) h⟩

end Rj
