import RjModel.Lemmas.PeLemmas3
/-! PE: the round trip `extract_section_from_pe (add_section_to_pe x) = payload ++ padding` for every image meeting `ValidPe`. -/
namespace Rj.Exe

theorem getElem?_patch_outside (b : Bytes) (off : Nat) (bs : Bytes) (j : Nat) (h : off + bs.length ≤ b.length)
    (ho : j < off ∨ off + bs.length ≤ j) : (patch b off bs)[j]? = b[j]? := by
  rw [getElem?_patch _ _ _ _ h]
  rcases ho with ho | ho
  · rw [if_pos ho]
  · rw [if_neg (by omega), if_neg (by omega)]

theorem C19_pe_roundtrip_aux (b name payload : Bytes) (v : ValidPe b name payload) :
    ∃ out, addPe b name payload = .ok out ∧
      extractPe out name = .ok (some (payload ++ zeros (alignUp payload.length (pFileAlign b) - payload.length))) := by
  obtain ⟨b2, img, nh, hl2, hb2f, _, _, hadd⟩ := addPe_eq b name payload v
  refine ⟨_, hadd, ?_⟩
  obtain ⟨hsig0, hsig, hnum1, hnum, hopt, hfa, hsa, hend, hsize, hva, hva1, hptr, hnames, hname0, hnamelen, hpl⟩ := v
  have hU64 : U64 = 2 ^ 64 := rfl
  have hU32 : U32 = 2 ^ 32 := rfl
  have hU16 : U16 = 2 ^ 16 := rfl
  have hb2_ : ∀ v, (leBytes 2 v).length = 2 := fun v => length_leBytes 2 v
  have hb4 : ∀ v, (leBytes 4 v).length = 4 := fun v => length_leBytes 4 v
  have hhdrs : pFh b + 84 ≤ pHdrs b := by unfold pHdrs pOpt; omega
  have hen : pHdrs b + pNum b * 40 = pEnd b := rfl
  have hopt_ : pOpt b = pFh b + 20 := rfl
  have hfh : pFh b = pSig b + 4 := rfl
  have hrs := alignUp_bounds payload.length (pFileAlign b) hpl hfa
  have hso := alignUp_bounds (b.length + pBump b) (pFileAlign b) (by omega) hfa
  obtain ⟨hhl, hh8, hh16⟩ := slice_peHdr name (alignUp (pPrevVa b + pPrevVs b) (pSecAlign b)) (alignUp payload.length (pFileAlign b)) hnamelen
  generalize hH : peHdr name (alignUp (pPrevVa b + pPrevVs b) (pSecAlign b)) (alignUp payload.length (pFileAlign b)) = H at *
  generalize hRS : alignUp payload.length (pFileAlign b) = rawSize at *
  generalize hSO : alignUp (b.length + pBump b) (pFileAlign b) = newSecOff at *
  have hroom : pEnd b + 40 ≤ b2.length := by
    rw [hl2]
    by_cases hg : pGap b < 40
    · have hbump : pBump b = alignUp (40 - pGap b) (pFileAlign b) := by unfold pBump; rw [if_pos hg]
      have hbb := alignUp_bounds (40 - pGap b) (pFileAlign b) (by omega) hfa
      omega
    · omega
  have hwH : pEnd b + H.length ≤ b2.length := by rw [hhl]; exact hroom
  have hl3 : (patch b2 (pEnd b) H).length = b.length + pBump b := by rw [length_patch _ _ _ hwH, hl2]
  obtain ⟨B4, hB4⟩ : ∃ B4 : Bytes, B4 = patch b2 (pEnd b) H ++ zeros (newSecOff - (b.length + pBump b)) ++ (payload ++ zeros (rawSize - payload.length)) := ⟨_, rfl⟩
  rw [← hB4] at hadd ⊢
  have hl4 : B4.length = newSecOff + rawSize := by
    rw [hB4]; simp only [List.length_append, hl3, zeros, List.length_replicate]; omega
  have w5 : pEnd b + 20 + (leBytes 4 newSecOff).length ≤ B4.length := by rw [hb4, hl4]; omega
  have hl5 := length_patch B4 (pEnd b + 20) (leBytes 4 newSecOff) w5
  have w6 : pOpt b + 56 + (leBytes 4 img).length ≤ (patch B4 (pEnd b + 20) (leBytes 4 newSecOff)).length := by rw [hb4, hl5, hl4]; omega
  have hl6 := length_patch _ (pOpt b + 56) (leBytes 4 img) w6
  have w7 : pOpt b + 60 + (leBytes 4 nh).length ≤ (patch (patch B4 (pEnd b + 20) (leBytes 4 newSecOff)) (pOpt b + 56) (leBytes 4 img)).length := by
    rw [hb4, hl6, hl5, hl4]; omega
  have hl7 := length_patch _ (pOpt b + 60) (leBytes 4 nh) w7
  generalize hOUT : patch (patch (patch B4 (pEnd b + 20) (leBytes 4 newSecOff)) (pOpt b + 56) (leBytes 4 img)) (pOpt b + 60) (leBytes 4 nh) = out at *
  have hlo : out.length = newSecOff + rawSize := by rw [hl7, hl6, hl5, hl4]
  -- bytes of the result outside the three patched fields are those of B4
  have hout : ∀ j, ¬ (pEnd b + 20 ≤ j ∧ j < pEnd b + 24) → ¬ (pOpt b + 56 ≤ j ∧ j < pOpt b + 64) → out[j]? = B4[j]? := by
    intro j h1 h2
    rw [← hOUT, getElem?_patch_outside _ _ _ _ w7 (by rw [hb4]; omega), getElem?_patch_outside _ _ _ _ w6 (by rw [hb4]; omega),
        getElem?_patch_outside _ _ _ _ w5 (by rw [hb4]; omega)]
  -- below the end of the old section table, outside the moved pointers, the section count and the two size fields: the input's bytes
  have low : ∀ j, j < pEnd b → (∀ i, i < pNum b → ¬ (pHdrs b + i * 40 + 20 ≤ j ∧ j < pHdrs b + i * 40 + 24)) →
      ¬ (pFh b + 2 ≤ j ∧ j < pFh b + 4) → ¬ (pOpt b + 56 ≤ j ∧ j < pOpt b + 64) → out[j]? = b[j]? := by
    intro j h1 h2 h3 h4
    rw [hout j (by omega) h4]
    rw [hB4]
    rw [List.append_assoc, List.getElem?_append_left (by rw [hl3]; omega), getElem?_patch_outside _ _ _ _ hwH (by left; exact h1), hb2f j h1 h2,
        getElem?_patch_outside _ _ _ _ (by rw [hb2_]; omega) (by rw [hb2_]; omega)]
  have lowslice : ∀ o n, o + n ≤ pEnd b → (∀ i, i < pNum b → (o + n ≤ pHdrs b + i * 40 + 20 ∨ pHdrs b + i * 40 + 24 ≤ o)) →
      (o + n ≤ pFh b + 2 ∨ pFh b + 4 ≤ o) → (o + n ≤ pOpt b + 56 ∨ pOpt b + 64 ≤ o) → slice out o n = slice b o n := by
    intro o n h1 h2 h3 h4
    apply slice_congr
    intro i hi
    exact low (o + i) (by omega) (fun k hk => by have := h2 k hk; omega) (by omega) (by omega)
  have p2 : (256 : Nat) ^ 2 = 2 ^ 16 := by decide
  have p4 : (256 : Nat) ^ 4 = 2 ^ 32 := by decide
  -- header of the result
  have e_sigoff : slice out 0x3c 4 = slice b 0x3c 4 :=
    lowslice _ _ (by omega) (fun i _ => by left; omega) (by left; omega) (by left; omega)
  have hsigO : pSig out = pSig b := congrArg leVal e_sigoff
  have e_sig : slice out (pSig b) 4 = slice b (pSig b) 4 :=
    lowslice _ _ (by omega) (fun i _ => by left; omega) (by left; omega) (by left; omega)
  have hvalid : validatePe out = .ok (pFh b) := by
    have := validatePe_eq out (by omega) (by rw [hsigO]; omega) (by omega) (by rw [hsigO, e_sig]; exact hsig)
    rw [this]; unfold pFh; rw [hsigO]
  have e_num : slice out (pFh b + 2) 2 = leBytes 2 (pNum b + 1) := by
    apply List.ext_getElem?
    intro i
    rw [getElem?_slice]
    by_cases hi : i < 2
    · rw [if_pos hi, hout _ (by omega) (by omega)]
      rw [hB4]
      rw [List.append_assoc, List.getElem?_append_left (by rw [hl3]; omega), getElem?_patch_outside _ _ _ _ hwH (by left; omega),
          hb2f _ (by omega) (fun k _ => by omega), getElem?_patch _ _ _ _ (by rw [hb2_]; omega), hb2_, if_neg (by omega), if_pos (by omega)]
      congr 1; omega
    · rw [if_neg hi]
      exact (List.getElem?_eq_none (by rw [hb2_]; omega)).symm
  have e_os : slice out (pFh b + 16) 2 = slice b (pFh b + 16) 2 :=
    lowslice _ _ (by omega) (fun i _ => by left; omega) (by right; omega) (by left; omega)
  -- the new header and the data
  have newhdr : ∀ o n, o + n ≤ 40 → (o + n ≤ 20 ∨ 24 ≤ o) → slice out (pEnd b + o) n = slice H o n := by
    intro o n h1 h2
    apply slice_congr
    intro i hi
    rw [hout _ (by omega) (by omega)]
    rw [hB4]
    rw [List.append_assoc, List.getElem?_append_left (by rw [hl3]; omega), getElem?_patch _ _ _ _ hwH, if_neg (by omega), if_pos (by rw [hhl]; omega)]
    congr 1; omega
  have e_ptr : slice out (pEnd b + 20) 4 = leBytes 4 newSecOff := by
    rw [← hOUT, slice_patch_disjoint _ _ _ _ _ w7 (by rw [hb4]; right; omega), slice_patch_disjoint _ _ _ _ _ w6 (by rw [hb4]; right; omega)]
    have := slice_patch_same B4 (pEnd b + 20) (leBytes 4 newSecOff) w5
    rwa [hb4] at this
  have e_data : slice out newSecOff rawSize = payload ++ zeros (rawSize - payload.length) := by
    apply List.ext_getElem?
    intro i
    rw [getElem?_slice]
    by_cases hi : i < rawSize
    · rw [if_pos hi, hout _ (by omega) (by omega)]
      rw [hB4]
      rw [List.getElem?_append_right (by simp only [List.length_append, hl3, zeros, List.length_replicate]; omega)]
      congr 1
      simp only [List.length_append, hl3, zeros, List.length_replicate]; omega
    · rw [if_neg hi]
      exact (List.getElem?_eq_none (by simp [zeros]; omega)).symm
  unfold extractPe
  rw [hvalid]
  simp only [bind_ok, add, show pFh b + 2 < U64 by omega, show pFh b + 16 < U64 by omega, show pFh b + 20 < U64 by omega, ↓reduceIte]
  rw [readField_eq out (pFh b + 2) 2 (by omega) (by omega), e_num, leVal_leBytes _ _ (by omega)]
  simp only [bind_ok]
  rw [readField_eq out (pFh b + 16) 2 (by omega) (by omega), e_os, show leVal (slice b (pFh b + 16) 2) = pOptSize b from rfl]
  simp only [bind_ok, show pFh b + 20 + pOptSize b = pHdrs b from rfl, show pHdrs b < U64 by omega, ↓reduceIte]
  apply extractPeLoop_found out name (payload ++ zeros (rawSize - payload.length)) (pHdrs b) (pNum b) rawSize newSecOff
  · intro i hi
    have hn := hnames i hi
    unfold NameNe at hn
    cases hr : readStringLoop b (pHdrs b + i * 40) 8 9 0 with
    | ok r =>
      rw [hr] at hn
      have hr8 := readStringLoop_le_max b (pHdrs b + i * 40) 8 9 0 r hr (by omega)
      refine ⟨r, by omega, ?_, ?_⟩
      · exact readStringLoop_congr b out _ 8 9 0 r hr (fun k hk =>
          low _ (by omega) (fun k' hk' => by omega) (by omega) (by omega))
      · rw [lowslice _ _ (by omega) (fun k' hk' => by omega) (by right; omega) (by right; omega)]
        exact hn
    | err => rw [hr] at hn; exact hn.elim
    | panic => rw [hr] at hn; exact hn.elim
  · omega
  · -- the name of the new section reads back (with or without a terminator)
    show readStringLoop out (pHdrs b + pNum b * 40) 8 9 0 = .ok name.length
    rw [hen]
    have hbytes : ∀ i, i < 8 → out[pEnd b + i]? = (name ++ zeros (8 - name.length))[i]? := by
      intro i hi
      have := newhdr 0 8 (by omega) (by left; omega)
      rw [hh8, Nat.add_zero] at this
      have h2 := congrArg (fun l => l[i]?) this
      simp only [getElem?_slice, if_pos hi] at h2
      exact h2
    by_cases hfull : name.length = 8
    · have := readStringLoop_full out name (pEnd b) hname0 (by omega) (by omega) (fun i hi => by
        rw [hbytes i (by omega), List.getElem?_append_left hi]) 9 0 (by omega) (by omega)
      rw [hfull] at this
      rw [hfull]; exact this
    · exact readStringLoop_name out name (pEnd b) 8 hname0 (by omega) (by omega) (fun i hi => by
        rw [hbytes i (by omega)]
        by_cases hn : i < name.length
        · rw [List.getElem?_append_left hn, List.getElem?_append_left hn]
        · have : i = name.length := by omega
          subst this
          rw [List.getElem?_append_right (Nat.le_refl _), List.getElem?_append_right (Nat.le_refl _)]
          simp only [zeros, Nat.sub_self, List.getElem?_replicate]
          rw [if_pos (by omega)]; rfl) 9 0 (by omega) (by omega)
  · rw [hen]
    have := newhdr 0 name.length (by omega) (by left; omega)
    rw [Nat.add_zero] at this
    rw [this]
    have h8 : slice H 0 name.length = (slice H 0 8).take name.length := by
      unfold slice; simp [List.take_take]; omega
    rw [h8, hh8, List.take_left']
    rfl
  · rw [hen, readField_eq out _ 4 (by omega) (by omega), newhdr 16 4 (by omega) (by left; omega), hh16, leVal_leBytes _ _ (by omega)]
  · rw [hen, readField_eq out _ 4 (by omega) (by omega), e_ptr, leVal_leBytes _ _ (by omega)]
  · omega
  · exact e_data
  · omega


/-- **What `add_section_to_pe` leaves alone** (for every image meeting `ValidPe`): below the end of the old section table every
byte is the input's except the section count, `SizeOfImage`, `SizeOfHeaders` and the raw-data pointers of the old sections; every
byte from there to the end of the input is found unchanged `pBump` bytes further on (`pBump` = 0 when there was room for the new
header, else as many whole file alignments as it takes); and each old section's `PointerToRawData` grew by exactly that amount -
so every old section's raw data is found, unchanged, where its header in the result points. -/
theorem addPe_preserved (b name payload : Bytes) (v : ValidPe b name payload) :
    ∃ out, addPe b name payload = .ok out ∧
      (∀ j, j < pEnd b → (∀ i, i < pNum b → ¬ (pHdrs b + i * 40 + 20 ≤ j ∧ j < pHdrs b + i * 40 + 24)) →
          ¬ (pFh b + 2 ≤ j ∧ j < pFh b + 4) → ¬ (pOpt b + 56 ≤ j ∧ j < pOpt b + 64) → out[j]? = b[j]?) ∧
      (∀ j, pEnd b + 40 ≤ j + pBump b → j < b.length → pEnd b ≤ j → out[j + pBump b]? = b[j]?) ∧
      (∀ i, i < pNum b → leVal (slice out (pHdrs b + i * 40 + 20) 4) = leVal (slice b (pHdrs b + i * 40 + 20) 4) + pBump b) := by
  obtain ⟨b2, img, nh, hl2, hb2f, hb2hi, hb2ptr, hadd⟩ := addPe_eq b name payload v
  refine ⟨_, hadd, ?_⟩
  obtain ⟨hsig0, hsig, hnum1, hnum, hopt, hfa, hsa, hend, hsize, hva, hva1, hptr, hnames, hname0, hnamelen, hpl⟩ := v
  have hU64 : U64 = 2 ^ 64 := rfl
  have hU32 : U32 = 2 ^ 32 := rfl
  have hb2_ : ∀ v, (leBytes 2 v).length = 2 := fun v => length_leBytes 2 v
  have hb4 : ∀ v, (leBytes 4 v).length = 4 := fun v => length_leBytes 4 v
  have hhdrs : pFh b + 84 ≤ pHdrs b := by unfold pHdrs pOpt; omega
  have hen : pHdrs b + pNum b * 40 = pEnd b := rfl
  have hopt_ : pOpt b = pFh b + 20 := rfl
  have hrs := alignUp_bounds payload.length (pFileAlign b) hpl hfa
  have hso := alignUp_bounds (b.length + pBump b) (pFileAlign b) (by omega) hfa
  obtain ⟨hhl, -, -⟩ := slice_peHdr name (alignUp (pPrevVa b + pPrevVs b) (pSecAlign b)) (alignUp payload.length (pFileAlign b)) hnamelen
  generalize hH : peHdr name (alignUp (pPrevVa b + pPrevVs b) (pSecAlign b)) (alignUp payload.length (pFileAlign b)) = H at *
  generalize hRS : alignUp payload.length (pFileAlign b) = rawSize at *
  generalize hSO : alignUp (b.length + pBump b) (pFileAlign b) = newSecOff at *
  have hroom : pEnd b + 40 ≤ b2.length := by
    rw [hl2]
    by_cases hg : pGap b < 40
    · have hbump : pBump b = alignUp (40 - pGap b) (pFileAlign b) := by unfold pBump; rw [if_pos hg]
      have hbb := alignUp_bounds (40 - pGap b) (pFileAlign b) (by omega) hfa
      omega
    · omega
  have hwH : pEnd b + H.length ≤ b2.length := by rw [hhl]; exact hroom
  have hl3 : (patch b2 (pEnd b) H).length = b.length + pBump b := by rw [length_patch _ _ _ hwH, hl2]
  obtain ⟨B4, hB4⟩ : ∃ B4 : Bytes, B4 = patch b2 (pEnd b) H ++ zeros (newSecOff - (b.length + pBump b)) ++ (payload ++ zeros (rawSize - payload.length)) := ⟨_, rfl⟩
  rw [← hB4]
  have hl4 : B4.length = newSecOff + rawSize := by
    rw [hB4]; simp only [List.length_append, hl3, zeros, List.length_replicate]; omega
  have w5 : pEnd b + 20 + (leBytes 4 newSecOff).length ≤ B4.length := by rw [hb4, hl4]; omega
  have hl5 := length_patch B4 (pEnd b + 20) (leBytes 4 newSecOff) w5
  have w6 : pOpt b + 56 + (leBytes 4 img).length ≤ (patch B4 (pEnd b + 20) (leBytes 4 newSecOff)).length := by rw [hb4, hl5, hl4]; omega
  have hl6 := length_patch _ (pOpt b + 56) (leBytes 4 img) w6
  have w7 : pOpt b + 60 + (leBytes 4 nh).length ≤ (patch (patch B4 (pEnd b + 20) (leBytes 4 newSecOff)) (pOpt b + 56) (leBytes 4 img)).length := by
    rw [hb4, hl6, hl5, hl4]; omega
  generalize hOUT : patch (patch (patch B4 (pEnd b + 20) (leBytes 4 newSecOff)) (pOpt b + 56) (leBytes 4 img)) (pOpt b + 60) (leBytes 4 nh) = out at *
  have hout : ∀ j, ¬ (pEnd b + 20 ≤ j ∧ j < pEnd b + 24) → ¬ (pOpt b + 56 ≤ j ∧ j < pOpt b + 64) → out[j]? = B4[j]? := by
    intro j h1 h2
    rw [← hOUT, getElem?_patch_outside _ _ _ _ w7 (by rw [hb4]; omega), getElem?_patch_outside _ _ _ _ w6 (by rw [hb4]; omega),
        getElem?_patch_outside _ _ _ _ w5 (by rw [hb4]; omega)]
  refine ⟨?_, ?_, ?_⟩
  · intro j h1 h2 h3 h4
    rw [hout j (by omega) h4, hB4]
    rw [List.append_assoc, List.getElem?_append_left (by rw [hl3]; omega), getElem?_patch_outside _ _ _ _ hwH (by left; exact h1), hb2f j h1 h2,
        getElem?_patch_outside _ _ _ _ (by rw [hb2_]; omega) (by rw [hb2_]; omega)]
  · intro j h1 h2 h3
    rw [hout _ (by omega) (by omega), hB4]
    rw [List.append_assoc, List.getElem?_append_left (by rw [hl3]; omega), getElem?_patch_outside _ _ _ _ hwH (by rw [hhl]; right; omega), hb2hi j h3]
  · intro i hi
    rw [← hb2ptr i hi]
    congr 1
    apply slice_congr
    intro k hk
    rw [hout _ (by omega) (by omega), hB4]
    rw [List.append_assoc, List.getElem?_append_left (by rw [hl3]; omega), getElem?_patch_outside _ _ _ _ hwH (by left; omega)]

end Rj.Exe
