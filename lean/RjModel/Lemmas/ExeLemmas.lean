import RjModel.Model.ExeValid
/-! Helper lemmas for `Props/C19.lean`: byte windows (`slice`), in-place patches (`patch`), and how the
bounds-checked accessors of `exe_utils.rs` (`read_field`, `write_field`, `read_string`) depend on them. -/
namespace Rj.Exe

/-- overwrite the window `[off, off+bs.length)` -/
def patch (b : Bytes) (off : Nat) (bs : Bytes) : Bytes := b.take off ++ bs ++ b.drop (off + bs.length)

theorem getElem?_slice (b : Bytes) (o n i : Nat) : (slice b o n)[i]? = if i < n then b[o + i]? else none := by
  unfold slice
  rw [List.getElem?_take]
  split
  · rw [List.getElem?_drop]
  · rfl

theorem length_slice (b : Bytes) (o n : Nat) (h : o + n ≤ b.length) : (slice b o n).length = n := by
  unfold slice; simp; omega

theorem slice_congr (b b' : Bytes) (o o' n : Nat) (h : ∀ i, i < n → b[o + i]? = b'[o' + i]?) :
    slice b o n = slice b' o' n := by
  apply List.ext_getElem?
  intro i
  rw [getElem?_slice, getElem?_slice]
  split
  · next hi => exact h i hi
  · rfl

theorem length_patch (b : Bytes) (off : Nat) (bs : Bytes) (h : off + bs.length ≤ b.length) :
    (patch b off bs).length = b.length := by
  unfold patch; simp; omega

theorem getElem?_patch (b : Bytes) (off : Nat) (bs : Bytes) (j : Nat) (h : off + bs.length ≤ b.length) :
    (patch b off bs)[j]? = if j < off then b[j]? else if j < off + bs.length then bs[j - off]? else b[j]? := by
  unfold patch
  have ho : off ≤ b.length := by omega
  by_cases h1 : j < off
  · rw [if_pos h1, List.append_assoc, List.getElem?_append_left (by simp; omega)]
    simp [h1]
  · rw [if_neg h1]
    rw [List.append_assoc, List.getElem?_append_right (by simp; omega)]
    simp only [List.length_take, Nat.min_eq_left ho]
    by_cases h2 : j < off + bs.length
    · rw [if_pos h2, List.getElem?_append_left (by omega)]
    · rw [if_neg h2, List.getElem?_append_right (by omega), List.getElem?_drop]
      congr 1; omega

theorem length_leBytes (n v : Nat) : (leBytes n v).length = n := by
  induction n generalizing v with
  | zero => rfl
  | succ k ih => simp [leBytes, ih]

theorem leVal_leBytes (n v : Nat) (h : v < 256 ^ n) : leVal (leBytes n v) = v := by
  induction n generalizing v with
  | zero => simp at h; subst h; rfl
  | succ k ih =>
    have hk : v / 256 < 256 ^ k := by
      rw [Nat.pow_succ] at h
      exact Nat.div_lt_of_lt_mul (by rw [Nat.mul_comm]; exact h)
    simp only [leBytes, leVal, ih _ hk, UInt8.toNat_ofNat']
    omega

theorem readField_eq (b : Bytes) (off size : Nat) (h : off + size ≤ b.length) (hw : off + size < U64) :
    readField b off size = .ok (leVal (slice b off size)) := by
  simp [readField, add, hw, h, Bind.bind, R.bind, slice]

theorem writeField_eq (b : Bytes) (off size v : Nat) (h : off + size ≤ b.length) (hw : off + size < U64) :
    writeField b off size v = .ok (patch b off (leBytes size v)) := by
  simp [writeField, add, hw, h, Bind.bind, R.bind, patch, length_leBytes]

/-- a window that was just patched reads back the patch -/
theorem slice_patch_same (b : Bytes) (off : Nat) (bs : Bytes) (h : off + bs.length ≤ b.length) :
    slice (patch b off bs) off bs.length = bs := by
  apply List.ext_getElem?
  intro i
  rw [getElem?_slice, getElem?_patch _ _ _ _ h]
  by_cases hi : i < bs.length
  · rw [if_pos hi, if_neg (by omega), if_pos (by omega)]
    congr 1; omega
  · rw [if_neg hi]
    exact (List.getElem?_eq_none (by omega)).symm

/-- a window disjoint from the patch is unchanged -/
theorem slice_patch_disjoint (b : Bytes) (off : Nat) (bs : Bytes) (o n : Nat) (h : off + bs.length ≤ b.length)
    (hd : o + n ≤ off ∨ off + bs.length ≤ o) : slice (patch b off bs) o n = slice b o n := by
  apply slice_congr
  intro i hi
  rw [getElem?_patch _ _ _ _ h]
  rcases hd with hd | hd
  · rw [if_pos (by omega)]
  · rw [if_neg (by omega), if_neg (by omega)]

theorem slice_append_left (x y : Bytes) (o n : Nat) (h : o + n ≤ x.length) : slice (x ++ y) o n = slice x o n := by
  apply slice_congr
  intro i hi
  rw [List.getElem?_append_left (by omega)]

theorem slice_append_right (x y : Bytes) (o n : Nat) : slice (x ++ y) (x.length + o) n = slice y o n := by
  apply slice_congr
  intro i _
  rw [List.getElem?_append_right (by omega)]
  congr 1; omega

theorem slice_full (b : Bytes) : slice b 0 b.length = b := by
  simp [slice]

/-! ### `read_string` depends only on the bytes it looks at -/

theorem readStringLoop_step (b : Bytes) (off max k size : Nat) :
    readStringLoop b off max (k + 1) size =
      if off + size < U64 then
        match b[off + size]? with
        | none => .err
        | some c => if c = 0 then .ok size else if size + 1 ≥ max then .ok (size + 1)
                    else readStringLoop b off max k (size + 1)
      else .panic := by
  by_cases hlt : off + size < U64
  · simp only [readStringLoop, add, hlt, ↓reduceIte, Bind.bind, R.bind]
    cases b[off + size]? <;> rfl
  · simp only [readStringLoop, add, hlt, ↓reduceIte, Bind.bind, R.bind]

theorem readStringLoop_ge (b : Bytes) (off max : Nat) (fuel size r : Nat)
    (h : readStringLoop b off max fuel size = .ok r) : size ≤ r := by
  induction fuel generalizing size with
  | zero => simp [readStringLoop] at h; omega
  | succ k ih =>
    rw [readStringLoop_step] at h
    by_cases hlt : off + size < U64
    · simp only [hlt, ↓reduceIte] at h
      cases hc : b[off + size]? with
      | none => simp [hc] at h
      | some c =>
        simp only [hc] at h
        by_cases hz : c = 0
        · simp only [hz, ↓reduceIte] at h; cases h; omega
        · simp only [hz, ↓reduceIte] at h
          by_cases hm : size + 1 ≥ max
          · simp only [hm, ↓reduceIte] at h; cases h; omega
          · simp only [hm, ↓reduceIte] at h
            have := ih (size + 1) h
            omega
    · simp [hlt] at h

theorem readStringLoop_congr (b b' : Bytes) (off max : Nat) (fuel size r : Nat)
    (h : readStringLoop b off max fuel size = .ok r)
    (hb : ∀ i, i ≤ r → b'[off + i]? = b[off + i]?) :
    readStringLoop b' off max fuel size = .ok r := by
  induction fuel generalizing size with
  | zero => simpa [readStringLoop] using h
  | succ k ih =>
    rw [readStringLoop_step] at h ⊢
    by_cases hlt : off + size < U64
    · simp only [hlt, ↓reduceIte] at h ⊢
      cases hc : b[off + size]? with
      | none => simp [hc] at h
      | some c =>
        simp only [hc] at h
        by_cases hz : c = 0
        · simp only [hz, ↓reduceIte] at h
          have hr : size = r := by injection h
          rw [hb size (by omega), hc]
          simp only [hz, ↓reduceIte, hr]
        · simp only [hz, ↓reduceIte] at h
          by_cases hm : size + 1 ≥ max
          · simp only [hm, ↓reduceIte] at h
            have hr : size + 1 = r := by injection h
            rw [hb size (by omega), hc]
            simp only [hz, ↓reduceIte, hm]
            rw [hr]
          · simp only [hm, ↓reduceIte] at h
            have hge : size + 1 ≤ r := readStringLoop_ge b off max k (size + 1) r h
            rw [hb size (by omega), hc]
            simp only [hz, ↓reduceIte, hm]
            exact ih (size + 1) h
    · simp [hlt] at h

end Rj.Exe

namespace Rj.Exe

theorem bind_ok {α β : Type} (a : α) (f : α → R β) : (Bind.bind (R.ok a) f : R β) = f a := rfl

end Rj.Exe

namespace Rj.Exe

/-- one turn of the loop: the table after looking at section `idx` -/
def shiftOne (t : Bytes) (es ins at_ sx idx : Nat) : Bytes :=
  if idx ≠ sx ∧ at_ ≤ leVal (slice t (idx * es + 0x18) 8) then
    patch t (idx * es + 0x18) (leBytes 8 (leVal (slice t (idx * es + 0x18) 8) + ins))
  else t

theorem shiftOffsets_step (t : Bytes) (es ins at_ sx n start : Nat)
    (hw : start * es + 0x18 + 8 ≤ t.length) (hU : t.length < U64)
    (hv : start ≠ sx → leVal (slice t (start * es + 0x18) 8) + ins < U64) :
    shiftOffsets t es ins at_ sx (n + 1) start = shiftOffsets (shiftOne t es ins at_ sx start) es ins at_ sx n (start + 1) := by
  have hU64 : U64 = 2 ^ 64 := rfl
  show (if start = sx then shiftOffsets t es ins at_ sx n (start + 1) else _) = _
  by_cases hs : start = sx
  · rw [if_pos hs]; unfold shiftOne; rw [if_neg (by intro h; exact h.1 hs)]
  · rw [if_neg hs]
    simp only [add, show start * es + 0x18 < U64 by omega, ↓reduceIte, bind_ok]
    rw [readField_eq _ _ _ hw (by omega)]
    simp only [bind_ok]
    by_cases ha : at_ ≤ leVal (slice t (start * es + 0x18) 8)
    · have hso : shiftOne t es ins at_ sx start = patch t (start * es + 0x18) (leBytes 8 (leVal (slice t (start * es + 0x18) 8) + ins)) := by
        unfold shiftOne; rw [if_pos ⟨hs, ha⟩]
      rw [hso, if_pos ha]
      simp only [hv hs, ↓reduceIte, bind_ok]
      rw [writeField_eq _ _ _ _ hw (by omega)]
      simp only [bind_ok]
    · have hso : shiftOne t es ins at_ sx start = t := by
        unfold shiftOne; rw [if_neg (by intro h; exact ha h.2)]
      rw [hso, if_neg ha]
      simp only [bind_ok]

/-- the loop that bumps the file offsets of the sections whose data lies at or behind the insertion point: it succeeds, keeps
the table's length, adds `ins` to exactly the 8-byte offset fields of the sections `idx ≠ sx` whose offset is `≥ at_`
and leaves every other byte alone -/
theorem shiftOffsets_spec (es ins at_ sx : Nat) (hes : 0x20 ≤ es) (n : Nat) : ∀ (t : Bytes) (start : Nat),
    t.length < U64 →
    (∀ idx, start ≤ idx → idx < start + n →
        idx * es + 0x20 ≤ t.length ∧ leVal (slice t (idx * es + 0x18) 8) + ins < U64) →
    ∃ t', shiftOffsets t es ins at_ sx n start = .ok t' ∧ t'.length = t.length ∧
      (∀ j, (∀ idx, start ≤ idx → idx < start + n → idx ≠ sx → at_ ≤ leVal (slice t (idx * es + 0x18) 8) →
          ¬ (idx * es + 0x18 ≤ j ∧ j < idx * es + 0x20)) → t'[j]? = t[j]?) ∧
      (∀ idx, start ≤ idx → idx < start + n →
        leVal (slice t' (idx * es + 0x18) 8) =
          if idx ≠ sx ∧ at_ ≤ leVal (slice t (idx * es + 0x18) 8) then leVal (slice t (idx * es + 0x18) 8) + ins
          else leVal (slice t (idx * es + 0x18) 8)) := by
  induction n with
  | zero =>
    intro t start _ _
    exact ⟨t, rfl, rfl, fun _ _ => rfl, fun idx h1 h2 => by omega⟩
  | succ n ih =>
    intro t start hU hin
    obtain ⟨h0a, h0b⟩ := hin start (Nat.le_refl _) (by omega)
    have hw : start * es + 0x18 + 8 ≤ t.length := by omega
    have hb8 : ∀ v, (leBytes 8 v).length = 8 := fun v => length_leBytes 8 v
    have hwp : start * es + 0x18 + (leBytes 8 (leVal (slice t (start * es + 0x18) 8) + ins)).length ≤ t.length := by rw [hb8]; exact hw
    -- the table after this turn
    generalize ht1 : shiftOne t es ins at_ sx start = t1
    have hl1 : t1.length = t.length := by
      rw [← ht1]; unfold shiftOne; split
      · exact length_patch _ _ _ hwp
      · rfl
    have hother : ∀ idx, start + 1 ≤ idx → slice t1 (idx * es + 0x18) 8 = slice t (idx * es + 0x18) 8 := by
      intro idx h1
      have hm := Nat.mul_le_mul_right es h1
      rw [Nat.succ_mul] at hm
      rw [← ht1]; unfold shiftOne; split
      · exact slice_patch_disjoint _ _ _ _ _ hwp (by rw [hb8]; right; omega)
      · rfl
    have hframe1 : ∀ j, ((start ≠ sx ∧ at_ ≤ leVal (slice t (start * es + 0x18) 8)) → ¬ (start * es + 0x18 ≤ j ∧ j < start * es + 0x20)) → t1[j]? = t[j]? := by
      intro j hj
      rw [← ht1]; unfold shiftOne; split
      · next hc =>
        have := hj hc
        rw [getElem?_patch _ _ _ _ hwp, hb8]
        by_cases h1 : j < start * es + 0x18
        · rw [if_pos h1]
        · rw [if_neg h1, if_neg (by omega)]
      · rfl
    have hin1 : ∀ idx, start + 1 ≤ idx → idx < start + 1 + n →
        idx * es + 0x20 ≤ t1.length ∧ leVal (slice t1 (idx * es + 0x18) 8) + ins < U64 := by
      intro idx h1 h2
      obtain ⟨ha, hb⟩ := hin idx (by omega) (by omega)
      exact ⟨by rw [hl1]; exact ha, by rw [hother idx h1]; exact hb⟩
    obtain ⟨t', he, hl', hfr, hval⟩ := ih t1 (start + 1) (by rw [hl1]; exact hU) hin1
    refine ⟨t', ?_, by rw [hl', hl1], ?_, ?_⟩
    · rw [shiftOffsets_step t es ins at_ sx n start hw hU (fun _ => h0b), ht1]
      exact he
    · intro j hj
      rw [hfr j (fun idx h1 h2 h3 h4 => hj idx (by omega) (by omega) h3 (by rw [← hother idx h1]; exact h4))]
      exact hframe1 j (fun hc => hj start (Nat.le_refl _) (by omega) hc.1 hc.2)
    · intro idx h1 h2
      by_cases hi : idx = start
      · subst hi
        -- the later turns leave this window alone
        have hsl : slice t' (idx * es + 0x18) 8 = slice t1 (idx * es + 0x18) 8 := by
          apply slice_congr
          intro i hi8
          apply hfr
          intro idx' h1' h2' _ _ hc
          have hm := Nat.mul_le_mul_right es h1'
          rw [Nat.succ_mul] at hm
          omega
        rw [hsl, ← ht1]
        unfold shiftOne
        split
        · have := slice_patch_same t (idx * es + 0x18) (leBytes 8 (leVal (slice t (idx * es + 0x18) 8) + ins)) hwp
          rw [hb8] at this
          rw [this, leVal_leBytes]
          have : U64 = 256 ^ 8 := by decide
          omega
        · rfl
      · rw [hval idx (by omega) (by omega), hother idx (by omega)]

end Rj.Exe

namespace Rj.Exe

theorem slice_drop (b : Bytes) (k o n : Nat) : slice (b.drop k) o n = slice b (k + o) n := by
  apply slice_congr
  intro i _
  rw [List.getElem?_drop]
  congr 1; omega

theorem mul_tri' (i idx es : Nat) : i * es + es ≤ idx * es ∨ i = idx ∨ idx * es + es ≤ i * es := by
  rcases Nat.lt_trichotomy i idx with h | h | h
  · left
    have := Nat.mul_le_mul_right es (show i + 1 ≤ idx from h)
    rwa [Nat.succ_mul] at this
  · right; left; exact h
  · right; right
    have := Nat.mul_le_mul_right es (show idx + 1 ≤ i from h)
    rwa [Nat.succ_mul] at this

theorem slice_take (b : Bytes) (k o n : Nat) (h : o + n ≤ k) : slice (b.take k) o n = slice b o n := by
  apply slice_congr
  intro i hi
  rw [List.getElem?_take, if_pos (by omega)]

def hdrOf (es ns newOff plen : Nat) : Bytes :=
  patch (patch (patch (patch (zeros es) 0 (leBytes 4 ns)) 4 (leBytes 4 0x80000000)) 0x18 (leBytes 8 newOff)) 0x20 (leBytes 8 plen)

/-- the names section's new size and the shifted offsets: the modified section header table -/
def tableOk (b : Bytes) (name : Bytes) (T2 : Bytes) : Prop :=
  let sh := eShoff b; let es := eEntsize b; let num := eNum b; let sx := eStrndx b
  let at_ := eNamesOff b + eNamesSize b
  T2.length = num * es ∧
  (∀ j, ¬ (sx * es + 0x20 ≤ j ∧ j < sx * es + 0x28) →
        (∀ idx, idx < num → idx ≠ sx → at_ ≤ secField b idx 0x18 8 → ¬ (idx * es + 0x18 ≤ j ∧ j < idx * es + 0x20)) → T2[j]? = b[sh + j]?) ∧
  leVal (slice T2 (sx * es + 0x20) 8) = eNamesSize b + (name.length + 1) ∧
  (∀ idx, idx < num → leVal (slice T2 (idx * es + 0x18) 8) =
      if idx ≠ sx ∧ at_ ≤ secField b idx 0x18 8 then secField b idx 0x18 8 + (name.length + 1) else secField b idx 0x18 8)

theorem validateElf_congr (b b' : Bytes) (h7 : 7 ≤ b.length) (h7' : 7 ≤ b'.length) (hU : b.length < U64) (_hU' : b'.length < U64)
    (h : ∀ i, i < 7 → b'[i]? = b[i]?) : validateElf b' = validateElf b := by
  have e1 : slice b' 0 4 = slice b 0 4 := slice_congr _ _ _ _ _ (fun i hi => by simpa using h i (by omega))
  have e2 : slice b' 4 1 = slice b 4 1 := slice_congr _ _ _ _ _ (fun i hi => h (4 + i) (by omega))
  have e3 : slice b' 5 1 = slice b 5 1 := slice_congr _ _ _ _ _ (fun i hi => h (5 + i) (by omega))
  have e4 : slice b' 6 1 = slice b 6 1 := slice_congr _ _ _ _ _ (fun i hi => h (6 + i) (by omega))
  unfold validateElf
  rw [readField_eq b 0 4 (by omega) (by omega), readField_eq b' 0 4 (by omega) (by omega),
      readField_eq b 4 1 (by omega) (by omega), readField_eq b' 4 1 (by omega) (by omega),
      readField_eq b 5 1 (by omega) (by omega), readField_eq b' 5 1 (by omega) (by omega),
      readField_eq b 6 1 (by omega) (by omega), readField_eq b' 6 1 (by omega) (by omega), e1, e2, e3, e4]

theorem addElf_eq (b name payload : Bytes) (v : ValidElf b name) (hsz : b.length + payload.length + 2 ^ 17 < U64) :
    let sh := eShoff b; let es := eEntsize b; let num := eNum b
    let at_ := eNamesOff b + eNamesSize b; let ins := name.length + 1
    ∃ T2, tableOk b name T2 ∧
      addElf b name payload = .ok
        (patch (patch ((((b.take sh).take at_ ++ (name ++ [0]) ++ (b.take sh).drop at_) ++ payload) ++
            (T2 ++ hdrOf es (eNamesSize b) (sh + ins) payload.length)) 0x28 (leBytes 8 (sh + ins + payload.length)))
          0x3C (leBytes 2 (num + 1))) := by
  intro sh es num at_ ins
  obtain ⟨hval, hsh, hes, hlen, hstr, hnum, hno, hns, hns32, hnames, hshift, hname0, hnamelen⟩ := v
  have hU : U64 = 2 ^ 64 := rfl
  have hU16 : U16 = 2 ^ 16 := rfl
  have e1 : leVal (slice b 40 8) = eShoff b := rfl
  have e2 : leVal (slice b 58 2) = eEntsize b := rfl
  have e3 : leVal (slice b 60 2) = eNum b := rfl
  have e4 : leVal (slice b 62 2) = eStrndx b := rfl
  have hmul : eStrndx b * eEntsize b + eEntsize b ≤ eNum b * eEntsize b := by
    have := Nat.mul_le_mul_right (eEntsize b) (show eStrndx b + 1 ≤ eNum b from hstr)
    rwa [Nat.succ_mul] at this
  have hT : (b.drop (eShoff b)).length = eNum b * eEntsize b := by simp; omega
  have hno' : leVal (slice (b.drop (eShoff b)) (eStrndx b * eEntsize b + 24) 8) = eNamesOff b := by
    rw [slice_drop]; unfold eNamesOff secField; rw [Nat.add_assoc]
  have hns' : leVal (slice (b.drop (eShoff b)) (eStrndx b * eEntsize b + 32) 8) = eNamesSize b := by
    rw [slice_drop]; unfold eNamesSize secField; rw [Nat.add_assoc]
  have hnl : (name ++ [0]).length = name.length + 1 := by simp
  have hEl : (b.take (eShoff b)).length = eShoff b := by simp; omega
  unfold addElf
  rw [hval]
  simp only [bind_ok]
  rw [readField_eq b 0x28 8 (by omega) (by omega), readField_eq b 0x3A 2 (by omega) (by omega),
      readField_eq b 0x3C 2 (by omega) (by omega), readField_eq b 0x3E 2 (by omega) (by omega)]
  simp only [bind_ok, e1, e2, e3, e4]
  simp only [add, show eShoff b + eNum b * eEntsize b < U64 by omega, ↓reduceIte, bind_ok, ← hlen, ne_eq,
    not_true_eq_false, splitOff, show eShoff b ≤ b.length by omega,
    show eStrndx b * eEntsize b + 24 < U64 by omega, show eStrndx b * eEntsize b + 32 < U64 by omega]
  rw [readField_eq _ _ 8 (by rw [hT]; omega) (by omega), readField_eq _ _ 8 (by rw [hT]; omega) (by omega)]
  simp only [bind_ok, hno', hns', show eNamesOff b + eNamesSize b < U64 by omega, ↓reduceIte, spliceAt,
    show eNamesOff b + eNamesSize b ≤ (b.take (eShoff b)).length by rw [hEl]; exact hns, hnl,
    show eNamesSize b + (name.length + 1) < U64 by omega]
  rw [writeField_eq _ _ 8 _ (by rw [hT]; omega) (by omega)]
  simp only [bind_ok]
  simp only [show b.length < U64 by omega, ↓reduceIte, bind_ok, not_true_eq_false]
  -- the table after the names-size update
  have hb8 : ∀ v, (leBytes 8 v).length = 8 := fun v => length_leBytes 8 v
  have hw1 : eStrndx b * eEntsize b + 32 + (leBytes 8 (eNamesSize b + (name.length + 1))).length ≤ (b.drop (eShoff b)).length := by
    rw [hb8, hT]; omega
  have hT1 : (patch (b.drop (eShoff b)) (eStrndx b * eEntsize b + 32) (leBytes 8 (eNamesSize b + (name.length + 1)))).length
      = eNum b * eEntsize b := by rw [length_patch _ _ _ hw1, hT]
  have hidx : ∀ idx, idx < eNum b → idx * eEntsize b + eEntsize b ≤ eNum b * eEntsize b := by
    intro idx h2
    have c := Nat.mul_le_mul_right (eEntsize b) (show idx + 1 ≤ eNum b from h2)
    rwa [Nat.succ_mul] at c
  have hsl1 : ∀ idx, idx < eNum b →
      slice (patch (b.drop (eShoff b)) (eStrndx b * eEntsize b + 32) (leBytes 8 (eNamesSize b + (name.length + 1)))) (idx * eEntsize b + 0x18) 8
        = slice b (eShoff b + idx * eEntsize b + 0x18) 8 := by
    intro idx h2
    have c := hidx idx h2
    rw [slice_patch_disjoint _ _ _ _ _ hw1 (by
        rw [hb8]
        rcases mul_tri' idx (eStrndx b) (eEntsize b) with h | h | h
        · left; omega
        · rw [h]; left; omega
        · right; omega), slice_drop, Nat.add_assoc]
  have hsec : ∀ idx, leVal (slice b (eShoff b + idx * eEntsize b + 0x18) 8) = secField b idx 0x18 8 := fun _ => rfl
  obtain ⟨T2, hT2e, hT2l, hT2f, hT2v⟩ := shiftOffsets_spec (eEntsize b) (name.length + 1) (eNamesOff b + eNamesSize b) (eStrndx b) (by omega)
    (eNum b)
    (patch (b.drop (eShoff b)) (eStrndx b * eEntsize b + 32) (leBytes 8 (eNamesSize b + (name.length + 1))))
    0 (by rw [hT1]; omega) (by
      intro idx _ h2
      have h2' : idx < eNum b := by omega
      have c := hidx idx h2'
      refine ⟨by rw [hT1]; omega, ?_⟩
      rw [hsl1 idx h2', hsec]
      exact hshift idx h2')
  refine ⟨T2, ?_, ?_⟩
  · refine ⟨by rw [hT2l, hT1], ?_, ?_, ?_⟩
    · intro j hj1 hj2
      rw [hT2f j (fun idx _ h2 h3 h4 => hj2 idx (by omega) h3 (by rw [hsl1 idx (by omega), hsec] at h4; exact h4)), getElem?_patch _ _ _ _ hw1, hb8]
      by_cases h1 : j < eStrndx b * eEntsize b + 32
      · rw [if_pos h1, List.getElem?_drop]
      · rw [if_neg h1, if_neg (by omega), List.getElem?_drop]
    · -- the names-size field is not touched by the offset loop
      have : slice T2 (eStrndx b * eEntsize b + 0x20) 8 =
          slice (patch (b.drop (eShoff b)) (eStrndx b * eEntsize b + 32) (leBytes 8 (eNamesSize b + (name.length + 1)))) (eStrndx b * eEntsize b + 0x20) 8 := by
        apply slice_congr
        intro i hi
        apply hT2f
        intro idx _ h2 h3 _ hc
        rcases mul_tri' idx (eStrndx b) (eEntsize b) with h | h | h
        · omega
        · exact h3 h
        · omega
      rw [this]
      have := slice_patch_same (b.drop (eShoff b)) (eStrndx b * eEntsize b + 32) (leBytes 8 (eNamesSize b + (name.length + 1))) hw1
      rw [hb8] at this
      rw [this, leVal_leBytes]
      have : U64 = 256 ^ 8 := by decide
      omega
    · intro idx h2
      rw [hT2v idx (by omega) (by omega), hsl1 idx h2, hsec]
  · rw [hT2e]
    simp only [bind_ok]
    have hz : (zeros (eEntsize b)).length = eEntsize b := by simp [zeros]
    have hb4 : ∀ v, (leBytes 4 v).length = 4 := fun v => length_leBytes 4 v
    rw [Nat.mod_eq_of_lt hns32, writeField_eq _ 0 4 _ (by rw [hz]; omega) (by omega)]
    simp only [bind_ok]
    have hl1 : (patch (zeros (eEntsize b)) 0 (leBytes 4 (eNamesSize b))).length = eEntsize b := by
      rw [length_patch _ _ _ (by rw [hb4, hz]; omega), hz]
    rw [writeField_eq _ 4 4 _ (by rw [hl1]; omega) (by omega)]
    simp only [bind_ok]
    have hl2 : (patch (patch (zeros (eEntsize b)) 0 (leBytes 4 (eNamesSize b))) 4 (leBytes 4 2147483648)).length = eEntsize b := by
      rw [length_patch _ _ _ (by rw [hb4, hl1]; omega), hl1]
    rw [writeField_eq _ 24 8 _ (by rw [hl2]; omega) (by omega)]
    simp only [bind_ok]
    have hE' : (List.take (eNamesOff b + eNamesSize b) (List.take (eShoff b) b) ++ (name ++ [0]) ++
                    List.drop (eNamesOff b + eNamesSize b) (List.take (eShoff b) b)).length = eShoff b + (name.length + 1) := by
      simp only [List.length_append, List.length_take, List.length_drop, List.length_cons, List.length_nil]
      omega
    rw [hE']
    have hl3 : (patch (patch (patch (zeros (eEntsize b)) 0 (leBytes 4 (eNamesSize b))) 4 (leBytes 4 2147483648)) 24
              (leBytes 8 (eShoff b + (name.length + 1)))).length = eEntsize b := by
      rw [length_patch _ _ _ (by rw [hb8, hl2]; omega), hl2]
    rw [writeField_eq _ 32 8 _ (by rw [hl3]; omega) (by omega)]
    simp only [bind_ok]
    have hl4 : (hdrOf (eEntsize b) (eNamesSize b) (eShoff b + (name.length + 1)) payload.length).length = eEntsize b := by
      unfold hdrOf
      rw [length_patch _ _ _ (by rw [hb8, hl3]; omega), hl3]
    have hEp : (List.take (eNamesOff b + eNamesSize b) (List.take (eShoff b) b) ++ (name ++ [0]) ++
                    List.drop (eNamesOff b + eNamesSize b) (List.take (eShoff b) b) ++ payload).length
                = eShoff b + (name.length + 1) + payload.length := by
      rw [List.length_append, hE']
    rw [hEp]
    have hfold : patch (patch (patch (patch (zeros (eEntsize b)) 0 (leBytes 4 (eNamesSize b))) 4 (leBytes 4 2147483648)) 24
              (leBytes 8 (eShoff b + (name.length + 1)))) 32 (leBytes 8 payload.length)
            = hdrOf (eEntsize b) (eNamesSize b) (eShoff b + (name.length + 1)) payload.length := rfl
    rw [hfold]
    have hout0 : (List.take (eNamesOff b + eNamesSize b) (List.take (eShoff b) b) ++ (name ++ [0]) ++
                    List.drop (eNamesOff b + eNamesSize b) (List.take (eShoff b) b) ++ payload ++
                  (T2 ++ hdrOf (eEntsize b) (eNamesSize b) (eShoff b + (name.length + 1)) payload.length)).length
                = eShoff b + (name.length + 1) + payload.length + (eNum b * eEntsize b + eEntsize b) := by
      rw [List.length_append, hEp, List.length_append, hl4, hT2l, hT1]
    rw [writeField_eq _ 40 8 _ (by rw [hout0]; omega) (by omega)]
    simp only [bind_ok]
    rw [Nat.mod_eq_of_lt hnum, writeField_eq _ 60 2 _ (by rw [length_patch _ _ _ (by rw [hb8, hout0]; omega), hout0]; omega) (by omega)]

end Rj.Exe

namespace Rj.Exe

theorem extractElfLoop_step (b name : Bytes) (shoff entsize namesOff n idx : Nat) :
    extractElfLoop b name shoff entsize namesOff (n + 1) idx = (do
      let hdr ← add U64 shoff (idx * entsize)
      let nameOff ← readField b hdr 4
      let so ← add U64 namesOff nameOff
      let nm ← readString b so 32
      if nm = name then do
        let dOff ← add U64 hdr 0x18
        let off ← readField b dOff 8
        let sOff ← add U64 hdr 0x20
        let size ← readField b sOff 8
        let (_, x) ← splitOff b off
        .ok (some (x.take size))
      else extractElfLoop b name shoff entsize namesOff n (idx + 1)) := rfl

theorem readString_eq (b : Bytes) (off max r : Nat) (h : readStringLoop b off max (max + 1) 0 = .ok r) :
    readString b off max = .ok (slice b off r) := by
  unfold readString
  rw [h]
  rfl

/-- reading a terminated string that is known byte for byte -/
theorem readStringLoop_name (b name : Bytes) (off max : Nat) (h0 : ∀ c, c ∈ name → c ≠ 0) (hmax : name.length < max)
    (hU : off + name.length < U64)
    (hb : ∀ i, i < name.length + 1 → b[off + i]? = (name ++ [0])[i]?) :
    ∀ fuel size, size ≤ name.length → name.length + 1 ≤ size + fuel → readStringLoop b off max fuel size = .ok name.length := by
  intro fuel
  induction fuel with
  | zero => intro size h1 h2; omega
  | succ k ih =>
    intro size h1 h2
    rw [readStringLoop_step, if_pos (by omega), hb size (by omega)]
    by_cases hs : size = name.length
    · subst hs
      rw [List.getElem?_append_right (Nat.le_refl _)]
      simp
    · have hlt : size < name.length := by omega
      rw [List.getElem?_append_left hlt, List.getElem?_eq_getElem hlt]
      simp only
      rw [if_neg (h0 _ (List.getElem_mem hlt)), if_neg (by omega)]
      exact ih (size + 1) (by omega) (by omega)

theorem mul_tri (i idx es : Nat) : i * es + es ≤ idx * es ∨ i = idx ∨ idx * es + es ≤ i * es := by
  rcases Nat.lt_trichotomy i idx with h | h | h
  · left
    have := Nat.mul_le_mul_right es (show i + 1 ≤ idx from h)
    rwa [Nat.succ_mul] at this
  · right; left; exact h
  · right; right
    have := Nat.mul_le_mul_right es (show idx + 1 ≤ i from h)
    rwa [Nat.succ_mul] at this

/-- what the search loop of `extract_section_from_elf` does on a table whose first `num` names differ
from `name` and whose entry `num` is the wanted one -/
theorem extractElfLoop_found (out name payload : Bytes) (sh' es no num ns newOff : Nat)
    (hskip : ∀ i, i < num → ∃ nmoff r, sh' + i * es < U64 ∧ readField out (sh' + i * es) 4 = .ok nmoff ∧ no + nmoff < U64 ∧
        readStringLoop out (no + nmoff) 32 33 0 = .ok r ∧ slice out (no + nmoff) r ≠ name)
    (h1 : sh' + num * es + 0x20 < U64) (h2 : readField out (sh' + num * es) 4 = .ok ns) (h3 : no + ns < U64)
    (h4 : readStringLoop out (no + ns) 32 33 0 = .ok name.length) (h5 : slice out (no + ns) name.length = name)
    (h6 : readField out (sh' + num * es + 0x18) 8 = .ok newOff)
    (h7 : readField out (sh' + num * es + 0x20) 8 = .ok payload.length)
    (h8 : newOff ≤ out.length) (h9 : slice out newOff payload.length = payload) :
    ∀ d k, k + d = num → extractElfLoop out name sh' es no (d + 1) k = .ok (some payload) := by
  intro d
  induction d with
  | zero =>
    intro k hk
    have hk : k = num := by omega
    subst hk
    rw [extractElfLoop_step]
    simp only [add, show sh' + k * es < U64 by omega, ↓reduceIte, bind_ok, h2, h3, readString_eq _ _ _ _ h4, h5,
      show sh' + k * es + 24 < U64 by omega, show sh' + k * es + 32 < U64 by omega, h6, h7, splitOff, h8]
    show R.ok (some ((out.drop newOff).take payload.length)) = _
    rw [show (out.drop newOff).take payload.length = slice out newOff payload.length from rfl, h9]
  | succ d ih =>
    intro k hk
    obtain ⟨nmoff, r, a1, a2, a3, a4, a5⟩ := hskip k (by omega)
    rw [extractElfLoop_step]
    simp only [add, a1, ↓reduceIte, bind_ok, a2, a3, readString_eq _ _ _ _ a4, a5]
    exact ih (k + 1) (by omega)

end Rj.Exe

namespace Rj.Exe

theorem leVal_lt (l : Bytes) : leVal l < 256 ^ l.length := by
  induction l with
  | nil => simp [leVal]
  | cons c cs ih =>
    simp only [leVal, List.length_cons, Nat.pow_succ]
    have := c.toNat_lt
    omega

theorem slice_hdrOf (es ns newOff plen : Nat) (hes : 0x28 ≤ es) :
    slice (hdrOf es ns newOff plen) 0 4 = leBytes 4 ns ∧
    slice (hdrOf es ns newOff plen) 0x18 8 = leBytes 8 newOff ∧
    slice (hdrOf es ns newOff plen) 0x20 8 = leBytes 8 plen ∧
    (hdrOf es ns newOff plen).length = es := by
  have hz : (zeros es).length = es := by simp [zeros]
  have hb4 : ∀ v, (leBytes 4 v).length = 4 := fun v => length_leBytes 4 v
  have hb8 : ∀ v, (leBytes 8 v).length = 8 := fun v => length_leBytes 8 v
  have w1 : 0 + (leBytes 4 ns).length ≤ (zeros es).length := by rw [hb4, hz]; omega
  have l1 := length_patch (zeros es) 0 (leBytes 4 ns) w1
  have w2 : 4 + (leBytes 4 0x80000000).length ≤ (patch (zeros es) 0 (leBytes 4 ns)).length := by rw [hb4, l1, hz]; omega
  have l2 := length_patch _ 4 (leBytes 4 0x80000000) w2
  have w3 : 0x18 + (leBytes 8 newOff).length ≤ (patch (patch (zeros es) 0 (leBytes 4 ns)) 4 (leBytes 4 0x80000000)).length := by
    rw [hb8, l2, l1, hz]; omega
  have l3 := length_patch _ 0x18 (leBytes 8 newOff) w3
  have w4 : 0x20 + (leBytes 8 plen).length ≤ (patch (patch (patch (zeros es) 0 (leBytes 4 ns)) 4 (leBytes 4 0x80000000)) 0x18 (leBytes 8 newOff)).length := by
    rw [hb8, l3, l2, l1, hz]; omega
  have l4 := length_patch _ 0x20 (leBytes 8 plen) w4
  unfold hdrOf
  refine ⟨?_, ?_, ?_, by rw [l4, l3, l2, l1, hz]⟩
  · rw [slice_patch_disjoint _ _ _ _ _ w4 (by left; omega), slice_patch_disjoint _ _ _ _ _ w3 (by left; omega),
        slice_patch_disjoint _ _ _ _ _ w2 (by left; omega)]
    have := slice_patch_same _ _ _ w1
    rwa [hb4] at this
  · rw [slice_patch_disjoint _ _ _ _ _ w4 (by left; omega)]
    have := slice_patch_same _ _ _ w3
    rwa [hb8] at this
  · have := slice_patch_same _ _ _ w4
    rwa [hb8] at this

theorem C19_elf_roundtrip_aux (b name payload : Bytes) (v : ValidElf b name) (hsz : b.length + payload.length + 2 ^ 17 < U64) :
    ∃ out, addElf b name payload = .ok out ∧ extractElf out name = .ok (some payload) := by
  obtain ⟨T2, hT, hadd⟩ := addElf_eq b name payload v hsz
  obtain ⟨hval, hsh, hes, hlen, hstr, hnum, hno, hns, hns32, hnames, hshift, hname0, hnamelen⟩ := v
  obtain ⟨hT2l, hT2f, hT2ns, hT2v⟩ := hT
  refine ⟨_, hadd, ?_⟩
  have hU : U64 = 2 ^ 64 := rfl
  have hU16 : U16 = 2 ^ 16 := rfl
  have hU32 : U32 = 2 ^ 32 := rfl
  obtain ⟨hh0, hh18, hh20, hhl⟩ := slice_hdrOf (eEntsize b) (eNamesSize b) (eShoff b + (name.length + 1)) payload.length hes
  generalize hH : hdrOf (eEntsize b) (eNamesSize b) (eShoff b + (name.length + 1)) payload.length = H at *
  -- names
  generalize hsh_ : eShoff b = sh at *
  generalize hes_ : eEntsize b = es at *
  generalize hnum_ : eNum b = num at *
  generalize hsx_ : eStrndx b = sx at *
  generalize hno_ : eNamesOff b = no at *
  generalize hns_ : eNamesSize b = ns at *
  have hb8 : ∀ v, (leBytes 8 v).length = 8 := fun v => length_leBytes 8 v
  have hb2 : ∀ v, (leBytes 2 v).length = 2 := fun v => length_leBytes 2 v
  let out0 : Bytes := (((b.take sh).take (no + ns) ++ (name ++ [0]) ++ (b.take sh).drop (no + ns)) ++ payload) ++ (T2 ++ H)
  have hl0 : out0.length = sh + (name.length + 1) + payload.length + (num * es + es) := by
    simp only [out0, List.length_append, List.length_take, List.length_drop, List.length_cons, List.length_nil, hT2l, hhl]
    omega
  have hw1 : 0x28 + (leBytes 8 (sh + (name.length + 1) + payload.length)).length ≤ out0.length := by rw [hb8, hl0]; omega
  have hl1 := length_patch out0 0x28 _ hw1
  have hw2 : 0x3C + (leBytes 2 (num + 1)).length ≤ (patch out0 0x28 (leBytes 8 (sh + (name.length + 1) + payload.length))).length := by
    rw [hb2, hl1, hl0]; omega
  have hl2 := length_patch _ 0x3C _ hw2
  -- bytes of the result outside the two patched header fields are those of `out0`
  have hout : ∀ j, ¬ (40 ≤ j ∧ j < 48) → ¬ (60 ≤ j ∧ j < 62) →
      (patch (patch out0 0x28 (leBytes 8 (sh + (name.length + 1) + payload.length))) 0x3C (leBytes 2 (num + 1)))[j]? = out0[j]? := by
    intro j h1 h2
    rw [getElem?_patch _ _ _ _ hw2, hb2, getElem?_patch _ _ _ _ hw1, hb8]
    by_cases a : j < 60
    · rw [if_pos a]
      by_cases c : j < 40
      · rw [if_pos c]
      · rw [if_neg c, if_neg (by omega)]
    · rw [if_neg a, if_neg (by omega), if_neg (by omega), if_neg (by omega)]
  -- the five segments of `out0`
  have seg1 : ∀ j, j < no + ns → out0[j]? = b[j]? := by
    intro j hj
    simp only [out0]
    rw [List.getElem?_append_left (by simp; omega), List.getElem?_append_left (by simp; omega),
        List.getElem?_append_left (by simp; omega), List.getElem?_append_left (by simp; omega),
        List.getElem?_take, if_pos hj, List.getElem?_take, if_pos (by omega)]
  have seg2 : ∀ i, i < name.length + 1 → out0[no + ns + i]? = (name ++ [0])[i]? := by
    intro i hi
    simp only [out0]
    rw [List.getElem?_append_left (by simp; omega), List.getElem?_append_left (by simp; omega),
        List.getElem?_append_left (by simp; omega), List.getElem?_append_right (by simp; omega)]
    congr 1
    simp; omega
  have seg4 : ∀ i, i < payload.length → out0[sh + (name.length + 1) + i]? = payload[i]? := by
    intro i hi
    simp only [out0]
    rw [List.getElem?_append_left (by simp; omega), List.getElem?_append_right (by simp; omega)]
    congr 1
    simp; omega
  have seg5 : ∀ i, out0[sh + (name.length + 1) + payload.length + i]? = (T2 ++ H)[i]? := by
    intro i
    simp only [out0]
    rw [List.getElem?_append_right (by simp; omega)]
    congr 1
    simp; omega
  have hes16 : es < 2 ^ 16 := by
    rw [← hes_]; unfold eEntsize
    have h1 := leVal_lt (slice b 0x3A 2)
    have h2 : (slice b 0x3A 2).length ≤ 2 := by unfold slice; simp; omega
    have h3 : (256 : Nat) ^ (slice b 0x3A 2).length ≤ 256 ^ 2 := Nat.pow_le_pow_right (by omega) h2
    have : (256 : Nat) ^ 2 = 2 ^ 16 := by decide
    omega
  generalize hOUT : patch (patch out0 0x28 (leBytes 8 (sh + (name.length + 1) + payload.length))) 0x3C (leBytes 2 (num + 1)) = out at *
  have hlo : out.length = sh + (name.length + 1) + payload.length + (num * es + es) := by rw [hl2, hl1, hl0]
  have hmul : sx * es + es ≤ num * es := by
    have := Nat.mul_le_mul_right es (show sx + 1 ≤ num from hstr)
    rwa [Nat.succ_mul] at this
  -- low bytes (below the end of the names section, outside the two header fields) are the input's
  have low : ∀ j, j < no + ns → ¬ (40 ≤ j ∧ j < 48) → ¬ (60 ≤ j ∧ j < 62) → out[j]? = b[j]? := by
    intro j h1 h2 h3
    rw [hout j h2 h3, seg1 j h1]
  have lowslice : ∀ o n, o + n ≤ no + ns → (o + n ≤ 40 ∨ 48 ≤ o) → (o + n ≤ 60 ∨ 62 ≤ o) → slice out o n = slice b o n := by
    intro o n h1 h2 h3
    apply slice_congr
    intro i hi
    exact low (o + i) (by omega) (by omega) (by omega)
  have tab : ∀ o n, slice out (sh + (name.length + 1) + payload.length + o) n = slice (T2 ++ H) o n := by
    intro o n
    apply slice_congr
    intro i hi
    rw [hout _ (by omega) (by omega), Nat.add_assoc _ o i, seg5]
  -- header fields of the result
  have f28 : slice out 0x28 8 = leBytes 8 (sh + (name.length + 1) + payload.length) := by
    rw [← hOUT, slice_patch_disjoint _ _ _ _ _ hw2 (by left; omega)]
    have := slice_patch_same out0 0x28 _ hw1
    rwa [hb8] at this
  have f3c : slice out 0x3C 2 = leBytes 2 (num + 1) := by
    rw [← hOUT]
    have := slice_patch_same _ 0x3C _ hw2
    rwa [hb2] at this
  have f3a : slice out 0x3A 2 = slice b 0x3A 2 := lowslice _ _ (by omega) (by omega) (by omega)
  have f3e : slice out 0x3E 2 = slice b 0x3E 2 := lowslice _ _ (by omega) (by omega) (by omega)
  have hvalid : validateElf out = .ok () := by
    rw [validateElf_congr b out (by omega) (by omega) (by omega) (by omega) (fun i hi => low i (by omega) (by omega) (by omega))]
    exact hval
  have p8 : (256 : Nat) ^ 8 = 2 ^ 64 := by decide
  have p2 : (256 : Nat) ^ 2 = 2 ^ 16 := by decide
  have p4 : (256 : Nat) ^ 4 = 2 ^ 32 := by decide
  -- table fields
  have tabT : ∀ o n, o + n ≤ num * es → slice out (sh + (name.length + 1) + payload.length + o) n = slice T2 o n := by
    intro o n h
    rw [tab, slice_append_left _ _ _ _ (by omega)]
  have tabH : ∀ o n, slice out (sh + (name.length + 1) + payload.length + (num * es + o)) n = slice H o n := by
    intro o n
    rw [tab, ← hT2l, slice_append_right]
  have hnoOut : slice out (sh + (name.length + 1) + payload.length + sx * es + 0x18) 8 = slice b (sh + sx * es + 0x18) 8 := by
    rw [Nat.add_assoc _ (sx * es) 0x18, tabT _ _ (by omega)]
    apply slice_congr
    intro i hi
    rw [hT2f _ (by omega) (fun idx h1 h2 => by
      have := mul_tri sx idx es
      omega)]
    congr 1; omega
  have hnoVal : leVal (slice b (sh + sx * es + 0x18) 8) = no := by
    rw [← hno_]; unfold eNamesOff secField; rw [hsh_, hes_, hsx_]
  have hnsVal : leVal (slice b (sh + sx * es + 0x20) 8) = ns := by
    rw [← hns_]; unfold eNamesSize secField; rw [hsh_, hes_, hsx_]
  unfold extractElf
  rw [hvalid]
  simp only [bind_ok]
  rw [readField_eq out 0x28 8 (by omega) (by omega), readField_eq out 0x3A 2 (by omega) (by omega),
      readField_eq out 0x3C 2 (by omega) (by omega), readField_eq out 0x3E 2 (by omega) (by omega),
      f28, f3c, f3a, f3e, leVal_leBytes _ _ (by omega), leVal_leBytes _ _ (by omega)]
  simp only [bind_ok]
  rw [show leVal (slice b 0x3A 2) = es from hes_, show leVal (slice b 0x3E 2) = sx from hsx_]
  simp only [add, show sh + (name.length + 1) + payload.length + sx * es < U64 by omega, ↓reduceIte, bind_ok,
    show sh + (name.length + 1) + payload.length + sx * es + 24 < U64 by omega]
  rw [readField_eq out _ 8 (by omega) (by omega), hnoOut, hnoVal]
  simp only [bind_ok]
  have hnmul : ∀ i, i < num → i * es + es ≤ num * es := by
    intro i hi
    have := Nat.mul_le_mul_right es (show i + 1 ≤ num from hi)
    rwa [Nat.succ_mul] at this
  apply extractElfLoop_found out name payload (sh + (name.length + 1) + payload.length) es no num ns (sh + (name.length + 1))
  · -- the old sections: same name offsets, same names, none equal to the new name
    intro i hi
    have hie := hnmul i hi
    have hn := hnames i hi
    have hnm : secField b i 0 4 = leVal (slice b (sh + i * es) 4) := by
      unfold secField; rw [hsh_, hes_]; rfl
    unfold NameOk at hn
    rw [hnm] at hn
    generalize hq : leVal (slice b (sh + i * es) 4) = q at hn
    cases hr : readStringLoop b (no + q) 32 33 0 with
    | ok r =>
      rw [hr] at hn
      obtain ⟨hne, hlim⟩ := hn
      refine ⟨q, r, by omega, ?_, by omega, ?_, ?_⟩
      · rw [readField_eq out _ 4 (by omega) (by omega), tabT _ _ (by omega)]
        have : slice T2 (i * es) 4 = slice b (sh + i * es) 4 := by
          apply slice_congr
          intro k hk
          rw [hT2f _ (by
              rcases mul_tri i sx es with h | h | h
              · omega
              · rw [h]; omega
              · omega) (fun idx h1 h2 => by
              rcases mul_tri i idx es with h | h | h
              · omega
              · rw [h]; omega
              · omega)]
          congr 1; omega
        rw [this, hq]
      · exact readStringLoop_congr b out (no + q) 32 33 0 r hr
          (fun k hk => low _ (by omega) (by omega) (by omega))
      · rw [lowslice _ _ (by omega) (by omega) (by omega)]
        exact hne
    | err => rw [hr] at hn; exact hn.elim
    | panic => rw [hr] at hn; exact hn.elim
  · omega
  · rw [readField_eq out _ 4 (by omega) (by omega)]
    have := tabH 0 4
    simp only [Nat.add_zero] at this
    rw [this, hh0, leVal_leBytes _ _ (by omega)]
  · omega
  · exact readStringLoop_name out name (no + ns) 32 hname0 hnamelen (by omega)
      (fun i hi => by rw [hout _ (by omega) (by omega), seg2 i hi]) 33 0 (by omega) (by omega)
  · apply List.ext_getElem?
    intro i
    rw [getElem?_slice]
    by_cases hi : i < name.length
    · rw [if_pos hi, hout _ (by omega) (by omega), seg2 i (by omega), List.getElem?_append_left hi]
    · rw [if_neg hi]
      exact (List.getElem?_eq_none (by omega)).symm
  · rw [readField_eq out _ 8 (by omega) (by omega), Nat.add_assoc _ (num * es) 0x18, tabH, hh18, leVal_leBytes _ _ (by omega)]
  · rw [readField_eq out _ 8 (by omega) (by omega), Nat.add_assoc _ (num * es) 0x20, tabH, hh20, leVal_leBytes _ _ (by omega)]
  · omega
  · apply List.ext_getElem?
    intro i
    rw [getElem?_slice]
    by_cases hi : i < payload.length
    · rw [if_pos hi, hout _ (by omega) (by omega), seg4 i hi]
    · rw [if_neg hi]
      exact (List.getElem?_eq_none (by omega)).symm
  · omega

end Rj.Exe

namespace Rj.Exe

/-- **What `add_section_to_elf` leaves alone**: below the end of the names section every byte except the
two header fields `e_shoff` and `e_shnum` is unchanged; everything between there and the old section
header table is the same bytes moved up by the length of the inserted name; the old section header
table follows the payload, changed only as `tableOk` says (names section longer by the inserted name,
file offsets of the later sections moved by the same amount). -/
theorem addElf_preserved (b name payload : Bytes) (v : ValidElf b name) (hsz : b.length + payload.length + 2 ^ 17 < U64) :
    ∃ out T2, addElf b name payload = .ok out ∧ tableOk b name T2 ∧
      (∀ j, j < eNamesOff b + eNamesSize b → ¬ (40 ≤ j ∧ j < 48) → ¬ (60 ≤ j ∧ j < 62) → out[j]? = b[j]?) ∧
      (∀ j, eNamesOff b + eNamesSize b ≤ j → j < eShoff b → out[j + (name.length + 1)]? = b[j]?) ∧
      (∀ j, j < eNum b * eEntsize b → out[eShoff b + (name.length + 1) + payload.length + j]? = T2[j]?) ∧
      eShoff out = eShoff b + (name.length + 1) + payload.length ∧ eNum out = eNum b + 1 := by
  obtain ⟨T2, hT, hadd⟩ := addElf_eq b name payload v hsz
  refine ⟨_, T2, hadd, hT, ?_⟩
  obtain ⟨hval, hsh, hes, hlen, hstr, hnum, hno, hns, hns32, hnames, hshift, hname0, hnamelen⟩ := v
  obtain ⟨hT2l, hT2f, hT2ns, hT2v⟩ := hT
  have hU : U64 = 2 ^ 64 := rfl
  have hU16 : U16 = 2 ^ 16 := rfl
  obtain ⟨hh0, hh18, hh20, hhl⟩ := slice_hdrOf (eEntsize b) (eNamesSize b) (eShoff b + (name.length + 1)) payload.length hes
  generalize hH : hdrOf (eEntsize b) (eNamesSize b) (eShoff b + (name.length + 1)) payload.length = H at *
  have hes16 : eEntsize b < 2 ^ 16 := by
    unfold eEntsize
    have h1 := leVal_lt (slice b 0x3A 2)
    have h2 : (slice b 0x3A 2).length ≤ 2 := by unfold slice; simp; omega
    have h3 : (256 : Nat) ^ (slice b 0x3A 2).length ≤ 256 ^ 2 := Nat.pow_le_pow_right (by omega) h2
    have : (256 : Nat) ^ 2 = 2 ^ 16 := by decide
    omega
  generalize hsh_ : eShoff b = sh at *
  generalize hes_ : eEntsize b = es at *
  generalize hnum_ : eNum b = num at *
  generalize hno_ : eNamesOff b = no at *
  generalize hns_ : eNamesSize b = ns at *
  have hb8 : ∀ v, (leBytes 8 v).length = 8 := fun v => length_leBytes 8 v
  have hb2 : ∀ v, (leBytes 2 v).length = 2 := fun v => length_leBytes 2 v
  let out0 : Bytes := (((b.take sh).take (no + ns) ++ (name ++ [0]) ++ (b.take sh).drop (no + ns)) ++ payload) ++ (T2 ++ H)
  have hl0 : out0.length = sh + (name.length + 1) + payload.length + (num * es + es) := by
    simp only [out0, List.length_append, List.length_take, List.length_drop, List.length_cons, List.length_nil, hT2l, hhl]
    omega
  have hw1 : 0x28 + (leBytes 8 (sh + (name.length + 1) + payload.length)).length ≤ out0.length := by rw [hb8, hl0]; omega
  have hl1 := length_patch out0 0x28 _ hw1
  have hw2 : 0x3C + (leBytes 2 (num + 1)).length ≤ (patch out0 0x28 (leBytes 8 (sh + (name.length + 1) + payload.length))).length := by
    rw [hb2, hl1, hl0]; omega
  have hout : ∀ j, ¬ (40 ≤ j ∧ j < 48) → ¬ (60 ≤ j ∧ j < 62) →
      (patch (patch out0 0x28 (leBytes 8 (sh + (name.length + 1) + payload.length))) 0x3C (leBytes 2 (num + 1)))[j]? = out0[j]? := by
    intro j h1 h2
    rw [getElem?_patch _ _ _ _ hw2, hb2, getElem?_patch _ _ _ _ hw1, hb8]
    by_cases a : j < 60
    · rw [if_pos a]
      by_cases c : j < 40
      · rw [if_pos c]
      · rw [if_neg c, if_neg (by omega)]
    · rw [if_neg a, if_neg (by omega), if_neg (by omega), if_neg (by omega)]
  have p8 : (256 : Nat) ^ 8 = 2 ^ 64 := by decide
  have p2 : (256 : Nat) ^ 2 = 2 ^ 16 := by decide
  refine ⟨?_, ?_, ?_, ?_, ?_⟩
  · intro j hj h1 h2
    rw [hout j h1 h2]
    simp only [out0]
    rw [List.getElem?_append_left (by simp; omega), List.getElem?_append_left (by simp; omega),
        List.getElem?_append_left (by simp; omega), List.getElem?_append_left (by simp; omega),
        List.getElem?_take, if_pos hj, List.getElem?_take, if_pos (by omega)]
  · intro j h1 h2
    rw [hout _ (by omega) (by omega)]
    simp only [out0]
    rw [List.getElem?_append_left (by simp; omega), List.getElem?_append_left (by simp; omega),
        List.getElem?_append_right (by simp; omega), List.getElem?_drop, List.getElem?_take, if_pos (by simp; omega)]
    congr 1
    simp; omega
  · intro j hj
    rw [hout _ (by omega) (by omega)]
    simp only [out0]
    rw [List.getElem?_append_right (by simp; omega), List.getElem?_append_left (by simp; omega)]
    congr 1
    simp; omega
  · unfold eShoff
    rw [slice_patch_disjoint _ _ _ _ _ hw2 (by left; omega)]
    have := slice_patch_same out0 0x28 _ hw1
    rw [hb8] at this
    rw [this, leVal_leBytes _ _ (by omega)]
  · unfold eNum
    have := slice_patch_same _ 0x3C _ hw2
    rw [hb2] at this
    rw [this, leVal_leBytes _ _ (by omega)]

end Rj.Exe

namespace Rj.Exe

end Rj.Exe

namespace Rj.Exe

/-- **Every old section is found, unchanged, where the result's header for it points** - whatever the order of the sections in the
file and in the table (the repair of C19-F12): for a section other than the names section that lies behind the ELF header and in
front of the section header table and does not straddle the insertion point, the bytes at the offset its header in the RESULT
holds are the bytes it had in the input. -/
theorem addElf_sections_preserved (b name payload : Bytes) (v : ValidElf b name) (hsz : b.length + payload.length + 2 ^ 17 < U64) :
    ∃ out, addElf b name payload = .ok out ∧
      ∀ idx, idx < eNum b → idx ≠ eStrndx b →
        64 ≤ secField b idx 0x18 8 → secField b idx 0x18 8 + secField b idx 0x20 8 ≤ eShoff b →
        (secField b idx 0x18 8 + secField b idx 0x20 8 ≤ eNamesOff b + eNamesSize b ∨ eNamesOff b + eNamesSize b ≤ secField b idx 0x18 8) →
        slice out (leVal (slice out (eShoff out + idx * eEntsize b + 0x18) 8)) (secField b idx 0x20 8) =
          slice b (secField b idx 0x18 8) (secField b idx 0x20 8) := by
  obtain ⟨out, T2, hadd, hT, hlow, hhigh, htab, hshoff, -⟩ := addElf_preserved b name payload v hsz
  refine ⟨out, hadd, ?_⟩
  intro idx hi hne h64 hin hside
  obtain ⟨hT2l, -, -, hT2v⟩ := hT
  have hmul : idx * eEntsize b + eEntsize b ≤ eNum b * eEntsize b := by
    have := Nat.mul_le_mul_right (eEntsize b) (show idx + 1 ≤ eNum b from hi)
    rwa [Nat.succ_mul] at this
  have hes := v.hes
  -- the offset field of this section in the result's table
  have hfield : slice out (eShoff out + idx * eEntsize b + 0x18) 8 = slice T2 (idx * eEntsize b + 0x18) 8 := by
    apply slice_congr
    intro i hi8
    rw [hshoff, Nat.add_assoc _ (idx * eEntsize b) 0x18, Nat.add_assoc _ (idx * eEntsize b + 0x18) i]
    exact htab _ (by omega)
  rw [hfield, hT2v idx hi]
  apply slice_congr
  intro i hisz
  rcases hside with hbefore | hafter
  · rw [if_neg (by intro h; omega)]
    exact hlow _ (by omega) (by omega) (by omega)
  · rw [if_pos ⟨hne, hafter⟩, Nat.add_assoc, Nat.add_comm (name.length + 1) i, ← Nat.add_assoc]
    exact hhigh _ (by omega) (by omega)

end Rj.Exe
