import RjModel.Model.LinkText
import RjModel.Generated.TryFrom
/-! The loop of `RootRelativePath::try_from` (translated: `Generated.tryFromSrc`) joins the components with single slashes - the model's `joinSlash`. -/
namespace Rj
open Generated

/-- a component as `Path::iter` yields it below a root: not empty, without either slash -/
def GoodC (c : List Char) : Prop := c ≠ [] ∧ '/' ∉ c ∧ '\\' ∉ c

theorem tryFrom_fold_good (comps : List (List Char)) (h : ∀ c ∈ comps, GoodC c) (acc : List Char) (ha : acc ≠ []) :
    comps.foldlM tryFromStepSrc acc = some (match comps with | [] => acc | _ => acc ++ '/' :: joinSlash comps) := by
  induction comps generalizing acc with
  | nil => rfl
  | cons c rest ih =>
    have hc := h c (by simp)
    have hstep : tryFromStepSrc acc c = some (acc ++ ['/'] ++ c) := by
      simp [tryFromStepSrc, hc.2.1, hc.2.2, ha]
    simp only [List.foldlM_cons, hstep, Option.bind_eq_bind, Option.bind]
    have hne : acc ++ ['/'] ++ c ≠ [] := by simp
    rw [ih (fun x hx => h x (by simp [hx])) _ hne]
    cases rest with
    | nil => simp [joinSlash]
    | cons r rs => simp [joinSlash]

theorem tryFrom_good (comps : List (List Char)) (h : ∀ c ∈ comps, GoodC c) : tryFromSrc comps = some (joinSlash comps) := by
  cases comps with
  | nil => rfl
  | cons c rest =>
    have hc := h c (by simp)
    have hstep : tryFromStepSrc [] c = some c := by simp [tryFromStepSrc, hc.2.1, hc.2.2]
    simp only [tryFromSrc, List.foldlM_cons, hstep, Option.bind_eq_bind, Option.bind]
    rw [tryFrom_fold_good rest (fun x hx => h x (by simp [hx])) c hc.1]
    cases rest with
    | nil => simp [joinSlash]
    | cons r rs => simp [joinSlash]

theorem tryFrom_refuses (pre : List (List Char)) (c : List Char) (post : List (List Char)) (hpre : ∀ x ∈ pre, GoodC x)
    (hc : '/' ∈ c ∨ '\\' ∈ c) : tryFromSrc (pre ++ c :: post) = none := by
  have hstep : ∀ acc, tryFromStepSrc acc c = none := by
    intro acc; rcases hc with h | h <;> simp [tryFromStepSrc, h]
  unfold tryFromSrc
  rw [List.foldlM_append]
  cases pre with
  | nil => simp [hstep]
  | cons p ps =>
    have := tryFrom_good (p :: ps) hpre
    unfold tryFromSrc at this
    rw [this]; simp [hstep]

end Rj
