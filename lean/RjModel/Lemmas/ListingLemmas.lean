import RjModel.Lemmas.SyncLemmas
/-! The model's own listing satisfies what `sync_mirror` assumes of a listing: it holds exactly the
entries below the directory (each once), parents first. -/
namespace Rj
open FS

/-- the representation invariant of a file system value: one entry per path -/
def FS.Wf (fs : FS) : Prop := (fs.nodes.map (·.1)).Nodup

theorem lookup_of_mem_nodup {β : Type} (l : List (FPath × β)) (q : FPath) (v : β)
    (hn : (l.map (·.1)).Nodup) (h : (q, v) ∈ l) : l.lookup q = some v := by
  induction l with
  | nil => simp at h
  | cons e rest ih =>
    obtain ⟨k, w⟩ := e
    simp only [List.map_cons, List.nodup_cons] at hn
    rcases List.mem_cons.mp h with h1 | h1
    · cases h1; simp [List.lookup]
    · have hk : q ≠ k := by
        intro e; subst e
        exact hn.1 (List.mem_map.mpr ⟨(q, v), h1, rfl⟩)
      have hb : (q == k) = false := by simpa using hk
      simp only [List.lookup_cons, hb]
      exact ih hn.2 h1

theorem mem_childrenOf {fs : FS} {dir : FPath} {e : FPath × Node} :
    e ∈ fs.childrenOf dir ↔ e ∈ fs.nodes ∧ e.1 ≠ [] ∧ e.1.dropLast = dir := by
  simp [FS.childrenOf, List.mem_filter]

theorem child_shape {q dir : FPath} (hne : q ≠ []) (hd : q.dropLast = dir) : q = dir ++ [q.getLast hne] := by
  rw [← hd]; exact (List.dropLast_concat_getLast hne).symm

/-- soundness: whatever is listed is a node strictly below `dir` -/
theorem listNodes_sound (fs : FS) (hw : fs.Wf) (f : Nat) (dir : FPath) (p : FPath) (n : Node)
    (h : (p, n) ∈ listNodes fs f dir) : fs.get p = some n ∧ dir <+: p ∧ p ≠ dir ∧ p ≠ [] := by
  induction f generalizing dir with
  | zero => simp [listNodes] at h
  | succ f ih =>
    simp only [listNodes, List.mem_flatMap] at h
    obtain ⟨e, he, hin⟩ := h
    obtain ⟨hen, hene, hed⟩ := mem_childrenOf.mp he
    have hshape := child_shape hene hed
    have hpre : dir <+: e.1 := by rw [hshape]; exact List.prefix_append _ _
    have hlen : e.1.length = dir.length + 1 := by rw [hshape]; simp
    rcases List.mem_cons.mp hin with h1 | h1
    · -- the child itself
      have hp : p = e.1 := by rw [← h1]
      have hn : n = e.2 := by rw [← h1]
      subst hp; subst hn
      refine ⟨?_, hpre, ?_, hene⟩
      · simp only [FS.get, hene, ↓reduceIte]
        exact lookup_of_mem_nodup _ _ _ hw hen
      · intro e1; rw [e1] at hlen; omega
    · -- beneath a child folder
      split at h1
      · obtain ⟨g1, g2, g3, g4⟩ := ih e.1 h1
        refine ⟨g1, List.IsPrefix.trans hpre g2, ?_, g4⟩
        intro e1
        have := g2.length_le
        rw [e1, hlen] at this; omega
      · simp at h1

/-- completeness: every node below `dir` whose ancestors up to `dir` are folders is listed, given enough fuel -/
theorem listNodes_complete (fs : FS) (f : Nat) (dir : FPath) (rest : FPath) (n : Node)
    (hrest : rest ≠ []) (hlen : rest.length ≤ f)
    (hget : fs.get (dir ++ rest) = some n)
    (hfold : ∀ k, 0 < k → k < rest.length → fs.get (dir ++ rest.take k) = some .folder) :
    (dir ++ rest, n) ∈ listNodes fs f dir := by
  induction f generalizing dir rest with
  | zero =>
    have : rest.length = 0 := by omega
    exact absurd (List.length_eq_zero_iff.mp this) hrest
  | succ f ih =>
    cases rest with
    | nil => exact absurd rfl hrest
    | cons c rest' =>
      simp only [listNodes, List.mem_flatMap]
      cases rest' with
      | nil =>
        -- a child of dir
        have hne : dir ++ [c] ≠ [] := by simp
        have hm : (dir ++ [c], n) ∈ fs.nodes := by
          simp only [FS.get, hne, ↓reduceIte] at hget
          exact mem_of_lookup _ _ _ hget
        exact ⟨(dir ++ [c], n), mem_childrenOf.mpr ⟨hm, hne, by simp⟩, by simp⟩
      | cons c2 rest'' =>
        -- beneath the child dir ++ [c], which is a folder
        have hc := hfold 1 (by omega) (by simp)
        simp only [List.take_succ_cons, List.take_zero] at hc
        have hne : dir ++ [c] ≠ [] := by simp
        have hm : (dir ++ [c], Node.folder) ∈ fs.nodes := by
          simp only [FS.get, hne, ↓reduceIte] at hc
          exact mem_of_lookup _ _ _ hc
        refine ⟨(dir ++ [c], .folder), mem_childrenOf.mpr ⟨hm, hne, by simp⟩, ?_⟩
        simp only [List.mem_cons]
        right
        have e1 : dir ++ c :: c2 :: rest'' = (dir ++ [c]) ++ (c2 :: rest'') := by simp
        rw [e1]
        apply ih (dir ++ [c]) (c2 :: rest'') (by simp) (by simp at hlen ⊢; omega)
        · rw [← e1]; exact hget
        · intro k hk0 hk
          have := hfold (k + 1) (by omega) (by simp at hk ⊢; omega)
          simpa [List.take_succ_cons] using this

end Rj

namespace Rj
open FS

theorem block_prefix (fs : FS) (hw : fs.Wf) (f : Nat) (e : FPath × Node) (x : FPath × Node)
    (hx : x ∈ e :: (if e.2 = .folder then listNodes fs f e.1 else [])) : e.1 <+: x.1 := by
  rcases List.mem_cons.mp hx with h | h
  · rw [h]; exact List.prefix_refl _
  · split at h
    · exact (listNodes_sound fs hw f e.1 x.1 x.2 h).2.1
    · simp at h

/-- parents first: nothing that is listed later is a prefix of (or equal to) something listed earlier -/
theorem listNodes_parentFirst (fs : FS) (hw : fs.Wf) (f : Nat) (dir : FPath) :
    (listNodes fs f dir).Pairwise (fun a b => ¬ b.1 <+: a.1) := by
  induction f generalizing dir with
  | zero => simp [listNodes]
  | succ f ih =>
    simp only [listNodes]
    rw [List.pairwise_flatMap]
    constructor
    · intro e he
      rw [List.pairwise_cons]
      constructor
      · intro b hb hpre
        split at hb
        · obtain ⟨-, g2, g3, -⟩ := listNodes_sound fs hw f e.1 b.1 b.2 hb
          exact g3 (List.IsPrefix.eq_of_length_le hpre g2.length_le)
        · simp at hb
      · split
        · exact ih e.1
        · simp
    · -- different children: their blocks live under different paths of the same length
      have hdist : (fs.childrenOf dir).Pairwise (fun a b => a.1 ≠ b.1) := by
        have : fs.nodes.Pairwise (fun a b => a.1 ≠ b.1) := by
          have := hw; unfold FS.Wf List.Nodup at this
          exact List.pairwise_map.mp this
        exact this.filter _
      refine hdist.imp_of_mem ?_
      intro a1 a2 ha1 ha2 hne x hx y hy hpre
      have p1 := block_prefix fs hw f a1 x hx
      have p2 := block_prefix fs hw f a2 y hy
      obtain ⟨-, n1, d1⟩ := mem_childrenOf.mp ha1
      obtain ⟨-, n2, d2⟩ := mem_childrenOf.mp ha2
      have l1 : a1.1.length = dir.length + 1 := by rw [child_shape n1 d1]; simp
      have l2 : a2.1.length = dir.length + 1 := by rw [child_shape n2 d2]; simp
      have q2 : a2.1 <+: x.1 := List.IsPrefix.trans p2 hpre
      have : a1.1 <+: a2.1 := List.prefix_of_prefix_length_le p1 q2 (by omega)
      exact hne (List.IsPrefix.eq_of_length this (by omega))

end Rj

namespace Rj
open FS

/-- **The model's own listing satisfies the assumptions of `sync_mirror`**: for a file system value with
one entry per path, a root that is a folder with folder ancestors, a tree-closed destination below it
and enough fuel for its depth, the listing of the root (paths made relative) is complete, exact and
parents-first — `DestWF` holds for it. -/
theorem destWF_of_listNodes (fs : FS) (hw : fs.Wf) (r : FPath)
    (hroot : fs.get r = some .folder) (hanc : ∀ k, k < r.length → fs.get (r.take k) = some .folder)
    (hclosed : ∀ p, p ≠ [] → fs.get (r ++ p) ≠ none → fs.get (r ++ p.dropLast) = some .folder)
    (f : Nat) (hfuel : ∀ p, fs.get (r ++ p) ≠ none → p.length ≤ f) :
    DestWF (fun _ => true) fs r ((listNodes fs f r).map fun e => (e.1.drop r.length, e.2)) := by
  refine ⟨hroot, hanc, hclosed, ?_, ?_⟩
  · intro p n
    constructor
    · intro h
      obtain ⟨e, he, heq⟩ := List.mem_map.mp h
      obtain ⟨q, m⟩ := e
      simp only [Prod.mk.injEq] at heq
      obtain ⟨h1, h2⟩ := heq
      subst h2
      obtain ⟨g1, ⟨t, ht⟩, g3, -⟩ := listNodes_sound fs hw f r q m he
      subst ht
      simp only [List.drop_left] at h1
      subst h1
      refine ⟨?_, rfl, g1⟩
      intro e1; subst e1; simp at g3
    · intro ⟨hp, _, hg⟩
      have hfold : ∀ k, 0 < k → k < p.length → fs.get (r ++ p.take k) = some .folder := by
        intro k _ hk
        exact prefixes_folders (fun q => fs.get (r ++ q)) Node.folder (fun q hq hq' => hclosed q hq hq') p (by rw [hg]; simp) k hk
      have := listNodes_complete fs f r p n hp (hfuel p (by rw [hg]; simp)) hg hfold
      exact List.mem_map.mpr ⟨(r ++ p, n), this, by simp⟩
  · rw [List.pairwise_map]
    refine (listNodes_parentFirst fs hw f r).imp_of_mem ?_
    intro a b ha hb hnp hpre
    obtain ⟨-, ⟨ta, hta⟩, -, -⟩ := listNodes_sound fs hw f r a.1 a.2 ha
    obtain ⟨-, ⟨tb, htb⟩, -, -⟩ := listNodes_sound fs hw f r b.1 b.2 hb
    apply hnp
    rw [← hta, ← htb] at hpre ⊢
    simp only [List.drop_left] at hpre
    exact (List.prefix_append_right_inj r).mpr hpre

end Rj

namespace Rj
open FS

/-- the details a listed node is reported with (when `entry_details_from_metadata` succeeds) -/
def detOr (fs : FS) (abs : List Comp) (e : FPath × Node) : Details :=
  match detailsOf fs abs e.1 e.2 with
  | .ok d => d
  | .error _ => .folder

/-- an entry the doer can report: a name without a backslash, a regular kind, a time at or after the epoch -/
def Reportable (fs : FS) (abs : List Comp) (e : FPath × Node) : Prop :=
  (e.1.getLast?.getD []).contains '\\' = false ∧ ∃ d, detailsOf fs abs e.1 e.2 = .ok d

theorem listStep_good (fs : FS) (abs : List Comp) (root : FPath)
    (sub : FPath → List (String × Details) × List ErrClass)
    (acc : List (String × Details) × List ErrClass) (e : FPath × Node) (h : Reportable fs abs e) :
    listStep fs abs (fun _ => true) root sub acc e =
      match e.2 with
      | .folder => (acc.1 ++ (relString root e.1, detOr fs abs e) :: (sub e.1).1, acc.2 ++ (sub e.1).2)
      | _ => (acc.1 ++ [(relString root e.1, detOr fs abs e)], acc.2) := by
  obtain ⟨h1, d, h2⟩ := h
  have hn : ¬ '\\' ∈ e.1.getLast?.getD [] := by simpa using h1
  obtain ⟨p, n⟩ := e
  cases n <;> (simp only [listStep, detOr, h2]; simp [hn])

/-- **`GetEntries` without filters lists exactly `listNodes`**, each entry with its root-relative path and
its details, and no error — provided every entry below the directory is reportable. -/
theorem listDir_eq_listNodes (fs : FS) (abs : List Comp) (root : FPath) (f : Nat) (dir : FPath)
    (hgood : ∀ e ∈ listNodes fs f dir, Reportable fs abs e) :
    listDir fs abs (fun _ => true) root f dir =
      ((listNodes fs f dir).map fun e => (relString root e.1, detOr fs abs e), []) := by
  induction f generalizing dir with
  | zero => simp [listDir, listNodes]
  | succ f ih =>
    simp only [listDir, listNodes] at hgood ⊢
    -- generalise the accumulator of the fold
    have key : ∀ (l : List (FPath × Node)) (acc : List (String × Details) × List ErrClass),
        (∀ c ∈ l, ∀ e ∈ (c :: (if c.2 = .folder then listNodes fs f c.1 else [])), Reportable fs abs e) →
        l.foldl (listStep fs abs (fun _ => true) root (listDir fs abs (fun _ => true) root f)) acc =
          (acc.1 ++ (l.flatMap fun c => c :: (if c.2 = .folder then listNodes fs f c.1 else [])).map
            (fun e => (relString root e.1, detOr fs abs e)), acc.2) := by
      intro l
      induction l with
      | nil => intro acc _; simp
      | cons c rest ihl =>
        intro acc hg
        have hc := hg c (by simp) c (by simp)
        simp only [List.foldl_cons]
        rw [listStep_good fs abs root _ acc c hc]
        have hrest : ∀ c' ∈ rest, ∀ e ∈ (c' :: (if c'.2 = .folder then listNodes fs f c'.1 else [])), Reportable fs abs e :=
          fun c' hc' e he => hg c' (by simp [hc']) e he
        cases hk : c.2 with
        | folder =>
          have hsub : ∀ e ∈ listNodes fs f c.1, Reportable fs abs e := by
            intro e he
            exact hg c (by simp) e (by simp [hk, he])
          simp only [ih c.1 hsub]
          rw [ihl _ hrest]
          simp [hk, List.flatMap_cons]
        | file b m => simp only; rw [ihl _ hrest]; simp [hk, List.flatMap_cons]
        | symlink t => simp only; rw [ihl _ hrest]; simp [hk, List.flatMap_cons]
        | special => simp only; rw [ihl _ hrest]; simp [hk, List.flatMap_cons]
    have := key (fs.childrenOf dir) ([], []) (by
      intro c hc e he
      exact hgood e (List.mem_flatMap.mpr ⟨c, hc, he⟩))
    simpa using this

end Rj

namespace Rj
open FS

/-- what is assumed of a source tree: below its root only files with a time stamp, folders and links
whose text can be written on the destination; tree-closed; fuel for its depth -/
structure SrcTreeOk (S : FS) (rs : FPath) (f : Nat) : Prop where
  wf : S.Wf
  kinds : ∀ p n, p ≠ [] → S.get (rs ++ p) = some n → (sentryOf n).isSome
  closed : ∀ p, p ≠ [] → S.get (rs ++ p) ≠ none → p.dropLast ≠ [] → S.get (rs ++ p.dropLast) = some .folder
  fuel : ∀ p, S.get (rs ++ p) ≠ none → p.length ≤ f
  links : ∀ p text, S.get (rs ++ p) = some (.symlink text) →
    writeLinkB '/' (readLinkB text) ≠ [] ∧ (0 : UInt8) ∉ writeLinkB '/' (readLinkB text)

theorem srcWF_of_tree (S : FS) (rs : FPath) (f : Nat) (h : SrcTreeOk S rs f) :
    SrcWF (fun _ => true) (srcOfFS S rs) (lsOfFS S rs f) := by
  have hfold : ∀ p n, p ≠ [] → S.get (rs ++ p) = some n →
      ∀ k, 0 < k → k < p.length → S.get (rs ++ p.take k) = some .folder := by
    intro p n hp hg k hk0 hk
    have := prefixes_folders (fun q => if q = [] then some Node.folder else S.get (rs ++ q)) Node.folder
      (fun q hq hq' => by
        by_cases hd : q.dropLast = []
        · simp [hd]
        · simp only [hd, ↓reduceIte]
          simp only [hq, ↓reduceIte] at hq'
          exact h.closed q hq hq' hd) p (by simp [hp, hg]) k hk
    have hne : p.take k ≠ [] := by
      intro e
      have := congrArg List.length e
      rw [List.length_take, List.length_nil] at this; omega
    simpa [hne] using this
  refine ⟨?_, ?_, fun _ _ _ => rfl, ?_, ?_⟩
  · -- closed
    intro p hp hsp hd
    simp only [srcOfFS] at hsp ⊢
    have hg : S.get (rs ++ p) ≠ none := by
      intro e; rw [e] at hsp; simp at hsp
    rw [h.closed p hp hg hd]; rfl
  · -- listed
    intro p e
    simp only [lsOfFS, List.mem_filterMap, srcOfFS]
    constructor
    · rintro ⟨⟨q, n⟩, hmem, hmap⟩
      obtain ⟨g1, ⟨t, ht⟩, g3, -⟩ := listNodes_sound S h.wf f rs q n hmem
      subst ht
      cases hs : sentryOf n with
      | none => simp [hs] at hmap
      | some s =>
        simp only [hs, Option.map_some, Option.some.injEq, Prod.mk.injEq, List.drop_left] at hmap
        obtain ⟨rfl, rfl⟩ := hmap
        refine ⟨?_, trivial, by rw [g1]; simpa using hs⟩
        intro e1; subst e1; simp at g3
    · rintro ⟨hp, -, hg⟩
      cases hn : S.get (rs ++ p) with
      | none => rw [hn] at hg; simp at hg
      | some n =>
        rw [hn] at hg
        simp only [Option.bind_some] at hg
        have := listNodes_complete S f rs p n hp (h.fuel p (by rw [hn]; simp)) hn (hfold p n hp hn)
        exact ⟨(rs ++ p, n), this, by simp [hg]⟩
  · -- parents first
    unfold lsOfFS
    have hpf := listNodes_parentFirst S h.wf f rs
    have hshape : ∀ a ∈ listNodes S f rs, ∃ t, a.1 = rs ++ t := by
      intro a ha
      obtain ⟨-, ⟨t, ht⟩, -, -⟩ := listNodes_sound S h.wf f rs a.1 a.2 ha
      exact ⟨t, ht.symm⟩
    generalize listNodes S f rs = L at hpf hshape
    induction L with
    | nil => simp
    | cons a rest ih =>
      rw [List.pairwise_cons] at hpf
      have ihr := ih hpf.2 (fun x hx => hshape x (List.mem_cons_of_mem _ hx))
      simp only [List.filterMap_cons]
      cases hs : sentryOf a.2 with
      | none => simpa [hs] using ihr
      | some s =>
        simp only [hs, Option.map_some]
        rw [List.pairwise_cons]
        refine ⟨?_, ihr⟩
        intro b hb hpre
        obtain ⟨c, hc, hmap⟩ := List.mem_filterMap.mp hb
        cases hsc : sentryOf c.2 with
        | none => simp [hsc] at hmap
        | some sc =>
          simp only [hsc, Option.map_some, Option.some.injEq] at hmap
          subst hmap
          obtain ⟨ta, hta⟩ := hshape a (by simp)
          obtain ⟨tc, htc⟩ := hshape c (List.mem_cons_of_mem _ hc)
          apply hpf.1 c hc
          simp only [hta, htc, List.drop_left] at hpre ⊢
          exact (List.prefix_append_right_inj rs).mpr hpre
  · -- links
    intro p t hsp
    simp only [srcOfFS] at hsp
    cases hn : S.get (rs ++ p) with
    | none => rw [hn] at hsp; simp at hsp
    | some n =>
      rw [hn] at hsp
      simp only [Option.bind_some] at hsp
      cases n with
      | symlink text =>
        simp only [sentryOf, Option.some.injEq, SEntry.link.injEq] at hsp
        subst hsp
        exact ⟨⟨text, rfl⟩, h.links p text hn⟩
      | file b m => cases m <;> simp [sentryOf] at hsp
      | folder => simp [sentryOf] at hsp
      | special => simp [sentryOf] at hsp

end Rj
