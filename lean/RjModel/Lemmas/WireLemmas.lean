import RjModel.Model.Wire
namespace Rj.Wire

@[simp] theorem length_leBytes (n v : Nat) : (leBytes n v).length = n := by
  induction n generalizing v with
  | zero => rfl
  | succ k ih => simp [leBytes, ih]

theorem leVal_leBytes (n v : Nat) (h : v < 256 ^ n) : leVal (leBytes n v) = v := by
  induction n generalizing v with
  | zero => simp at h; subst h; rfl
  | succ k ih =>
    have hk : v / 256 < 256 ^ k := by
      rw [Nat.pow_succ] at h
      exact Nat.div_lt_of_lt_mul (by rw [Nat.mul_comm]; exact h)
    simp only [leBytes, leVal, ih _ hk, UInt8.toNat_ofNat']
    omega

theorem take?_append (a r : B) : take? a.length (a ++ r) = some (a, r) := by
  simp [take?]

theorem dNat_leBytes (n v : Nat) (r : B) (h : v < 256 ^ n) : dNat n (leBytes n v ++ r) = some (v, r) := by
  have := take?_append (leBytes n v) r
  rw [length_leBytes] at this
  simp [dNat, this, leVal_leBytes n v h]

@[simp] theorem dNat4 (v : Nat) (r : B) (h : u32 v) : dNat 4 (leBytes 4 v ++ r) = some (v, r) := dNat_leBytes 4 v r h
@[simp] theorem dNat8 (v : Nat) (r : B) (h : u64 v) : dNat 8 (leBytes 8 v ++ r) = some (v, r) := dNat_leBytes 8 v r h

theorem dBytes_eBytes (d r : B) (h : wfB d) : dBytes (eBytes d ++ r) = some (d, r) := by
  simp only [dBytes, eBytes, List.append_assoc, dNat8 _ _ h, Option.bind_some, take?_append]

theorem dBool_eBool (x : Bool) (r : B) : dBool (eBool x ++ r) = some (x, r) := by
  cases x <;> rfl

theorem tag_u32 (n : Nat) (h : n < 13) : u32 n := by unfold u32; omega

theorem dTag (n : Nat) (r : B) (h : n < 13) : dNat 4 (leBytes 4 n ++ r) = some (n, r) :=
  dNat_leBytes 4 n r (by omega)

theorem dKind_eKind (k : WKind) (r : B) : dKind (eKind k ++ r) = some (k, r) := by
  cases k <;> simp [dKind, eKind, dTag]

theorem dTarget_eTarget (t : WTarget) (r : B) (h : wfTarget t) : dTarget (eTarget t ++ r) = some (t, r) := by
  cases t with
  | norm s => simp [dTarget, eTarget, List.append_assoc, dTag, dBytes_eBytes s r h]
  | notNorm s => simp [dTarget, eTarget, List.append_assoc, dTag, dBytes_eBytes s r h]

theorem dDetails_eDetails (d : WDetails) (r : B) (h : wfDetails d) : dDetails (eDetails d ++ r) = some (d, r) := by
  cases d with
  | file s n z =>
    obtain ⟨h1, h2, h3⟩ := h
    simp [dDetails, eDetails, List.append_assoc, dTag, dNat8 _ _ h1, dNat4 _ _ h2, dNat8 _ _ h3]
  | folder => simp [dDetails, eDetails, dTag]
  | symlink k t =>
    simp [dDetails, eDetails, List.append_assoc, dTag, dKind_eKind, dTarget_eTarget t r h]

theorem dPhase_ePhase (p : WPhase) (r : B) (h : wfPhase p) : dPhase (ePhase p ++ r) = some (p, r) := by
  cases p with
  | deleting n => simp [dPhase, ePhase, List.append_assoc, dTag, dNat4 _ _ h]
  | copying n b =>
    obtain ⟨h1, h2⟩ := h
    simp [dPhase, ePhase, List.append_assoc, dTag, dNat4 _ _ h1, dNat8 _ _ h2]
  | done => simp [dPhase, ePhase, dTag]

theorem dMarker_eMarker (m : WMarker) (r : B) (h : wfMarker m) : dMarker (eMarker m ++ r) = some (m, r) := by
  obtain ⟨h1, h2⟩ := h
  simp [dMarker, eMarker, List.append_assoc, dNat8 _ _ h1, dPhase_ePhase _ r h2]

theorem dStrs_eStrs (l : List B) (r : B) (h : ∀ p ∈ l, wfB p) : dStrs l.length (eStrs l ++ r) = some (l, r) := by
  induction l with
  | nil => rfl
  | cons s rest ih =>
    simp [dStrs, eStrs, List.append_assoc, dBytes_eBytes s _ (h s (List.mem_cons_self ..)),
      ih (fun p hp => h p (List.mem_cons_of_mem _ hp))]

theorem dKinds_eKinds (l : List Bool) (r : B) : dKinds l.length (eKinds l ++ r) = some (l, r) := by
  induction l with
  | nil => rfl
  | cons k rest ih =>
    cases k <;> simp [dKinds, eKinds, List.append_assoc, dTag, ih]

theorem dOptTime_eOptTime (t : Option (Nat × Nat)) (r : B) (h : ∀ s n, t = some (s, n) → u64 s ∧ u32 n) :
    dOptTime (eOptTime t ++ r) = some (t, r) := by
  cases t with
  | none => rfl
  | some sn =>
    obtain ⟨s, n⟩ := sn
    obtain ⟨h1, h2⟩ := h s n rfl
    simp [dOptTime, eOptTime, List.append_assoc, dNat8 _ _ h1, dNat4 _ _ h2]

theorem dOptDetails_eOptDetails (d : Option WDetails) (r : B) (h : ∀ x, d = some x → wfDetails x) :
    dOptDetails (eOptDetails d ++ r) = some (d, r) := by
  cases d with
  | none => rfl
  | some x => simp [dOptDetails, eOptDetails, dDetails_eDetails x r (h x rfl)]

end Rj.Wire
