import RjModel.Lemmas.DoerLemmas
import RjModel.Lemmas.LinkLemmas
import RjModel.Model.Sync
import RjModel.Model.Boss
/-! Composition: the doer model (`exec_command` over the file-system model) executing the command trace the boss
sends for a plan is `runOps` of that plan - for files cut into parts in any way.  Used by `Props/C01.lean`
(`C01_doer_trace_is_syncDest`, `C01_mirror_two_trees_by_commands`). -/
namespace Rj
open FS

/-- the string the boss uses for a relative path -/
def pathStr (p : FPath) : String := String.ofList (joinSlash p)

/-- a path whose components are names: not empty, no slash, not `.` or `..` -/
def GoodPath (p : FPath) : Prop := ∀ c ∈ p, c ≠ [] ∧ '/' ∉ c ∧ c ≠ ['.'] ∧ c ≠ ['.', '.']

theorem relComps_pathStr (p : FPath) (h : GoodPath p) : relComps (pathStr p) = some p := by
  unfold relComps pathStr
  cases p with
  | nil => simp [joinSlash]
  | cons c rest =>
    have hne : joinSlash (c :: rest) ≠ [] := by
      have hc := (h c (by simp)).1
      cases rest with
      | nil => simpa [joinSlash] using hc
      | cons d r => simp [joinSlash]
    simp only [String.toList_ofList, hne, ↓reduceIte]
    rw [splitSlash_joinSlash _ (by simp) (fun x hx => (h x hx).2.1)]
    have : (c :: rest).all (fun c => decide (c ≠ [] ∧ c ≠ ['.'] ∧ c ≠ ['.', '.'])) = true := by
      rw [List.all_eq_true]
      intro x hx
      have := h x hx
      simp [this.1, this.2.2.1, this.2.2.2]
    simp only [this, ↓reduceIte]

theorem FS.set_set (fs : FS) (p : FPath) (x y : Option Node) : (fs.set p x).set p y = fs.set p y := by
  unfold FS.set
  congr 1
  congr 1
  rw [List.filter_append, List.filter_filter]
  cases x <;> simp

/-- the commands that carry one file: every part but the last with `more_to_follow`, the time stamp with the last -/
def fileCmds (ps : String) (init : List (List UInt8)) (last : List UInt8) (m : Int) : List Cmd :=
  init.map (fun c => Cmd.createOrUpdateFile ps c none true) ++ [.createOrUpdateFile ps last (some m) false]

theorem execCmd_createOrUpdate (k : ChunkCfg) (keepOf : List FilterSpec → String → Bool) (st : DoerSt) (r p : FPath) (ps : String)
    (hr : st.root = some (r, false)) (hp : relComps ps = some p) (d : List UInt8) (mt : Option Int) (more : Bool) :
    execCmd k keepOf st (.createOrUpdateFile ps d mt more) = execCreateOrUpdate st ps (r ++ p) d mt more := by
  simp [execCmd, hr, Cmd.path?, fullOf, hp, Cmd.isFolderOp]

theorem append_set (base : FS) (full : FPath) (hfull : full ≠ []) (acc c : List UInt8) :
    (base.set full (some (.file acc .fresh))).append full c = .ok (base.set full (some (.file (acc ++ c) .fresh))) := by
  unfold FS.append
  rw [FS.get_set _ _ _ _ hfull]
  simp [FS.set_set]

/-- the later parts of a file: each is appended through the handle kept open; the last one sets the time -/
theorem exec_continue (k : ChunkCfg) (keepOf : List FilterSpec → String → Bool) (r p : FPath) (ps : String)
    (hp : relComps ps = some p) (hfull : r ++ p ≠ []) (base : FS) (last : List UInt8) (m : Int) (fs' : FS) :
    ∀ (cs : List (List UInt8)) (acc : List UInt8) (abs : List Comp),
      (base.set (r ++ p) (some (.file (acc ++ cs.flatten ++ last) .fresh))).setMtime (r ++ p) m = .ok fs' →
      execCmds k keepOf ⟨base.set (r ++ p) (some (.file acc .fresh)), abs, some (r, false), some ps, none⟩ (fileCmds ps cs last m)
        = (⟨fs', abs, some (r, false), none, none⟩, List.replicate (cs.length + 1) [], none) := by
  intro cs
  induction cs with
  | nil =>
    intro acc abs h
    simp only [List.flatten_nil, List.append_nil] at h
    simp only [fileCmds, List.map_nil, List.nil_append, execCmds]
    rw [execCmd_createOrUpdate k keepOf _ r p ps rfl hp]
    simp only [execCreateOrUpdate, reduceCtorEq, ↓reduceIte, append_set base _ hfull, h, reply]
    rfl
  | cons c cs ih =>
    intro acc abs h
    have h' : (base.set (r ++ p) (some (.file ((acc ++ c) ++ cs.flatten ++ last) .fresh))).setMtime (r ++ p) m = .ok fs' := by
      simpa [List.append_assoc] using h
    have := ih (acc ++ c) abs h'
    simp only [fileCmds, List.map_cons, List.cons_append, execCmds]
    rw [execCmd_createOrUpdate k keepOf _ r p ps rfl hp]
    simp only [execCreateOrUpdate, reduceCtorEq, ↓reduceIte, append_set base _ hfull]
    simp only [fileCmds] at this
    rw [this]
    rfl

theorem createTrunc_ok_eq {fs fs1 : FS} {full : FPath} (h : fs.createTrunc full = .ok fs1) :
    fs1 = fs.set full (some (.file [] .fresh)) ∧ full ≠ [] := by
  unfold FS.createTrunc withAnc at h
  split at h
  · split at h
    · simp only [OpR.ok.injEq] at h
      refine ⟨h.symm, ?_⟩
      intro e; subst e
      rename_i hg; simp [FS.get] at hg
    · simp only [OpR.ok.injEq] at h
      refine ⟨h.symm, ?_⟩
      intro e; subst e
      rename_i hg; simp [FS.get] at hg
    all_goals simp at h
  all_goals simp at h

/-- **A file sent in any number of parts is `putFile`**: whatever the chunking, the doer model ends with the
file system `File::create` + one `write_all` of the whole content + `set_file_mtime` gives, nothing in
progress, no error response. -/
theorem exec_fileCmds (k : ChunkCfg) (keepOf : List FilterSpec → String → Bool) (fs : FS) (abs : List Comp) (r p : FPath) (ps : String)
    (hp : relComps ps = some p) (init : List (List UInt8)) (last : List UInt8) (m : Int) (fs' : FS)
    (h : putFile fs (r ++ p) (init.flatten ++ last) m = .ok fs') :
    execCmds k keepOf ⟨fs, abs, some (r, false), none, none⟩ (fileCmds ps init last m)
      = (⟨fs', abs, some (r, false), none, none⟩, List.replicate (init.length + 1) [], none) := by
  unfold putFile OpR.bind at h
  cases hc : fs.createTrunc (r ++ p) with
  | err => simp [hc] at h
  | escape => simp [hc] at h
  | ok fs1 =>
    obtain ⟨e1, hfull⟩ := createTrunc_ok_eq hc
    subst e1
    simp only [hc] at h
    have ha := append_set fs (r ++ p) hfull [] (init.flatten ++ last)
    simp only [List.nil_append] at ha
    rw [ha] at h
    simp only at h
    cases init with
    | nil =>
      simp only [List.flatten_nil, List.nil_append] at h
      simp only [fileCmds, List.map_nil, List.nil_append, execCmds]
      rw [execCmd_createOrUpdate k keepOf _ r p ps rfl hp]
      have ha' := append_set fs (r ++ p) hfull [] last
      simp only [List.nil_append] at ha'
      simp only [execCreateOrUpdate, reduceCtorEq, ↓reduceIte, hc, ha', h, reply]
      rfl
    | cons c cs =>
      have h' : (fs.set (r ++ p) (some (.file (c ++ cs.flatten ++ last) .fresh))).setMtime (r ++ p) m = .ok fs' := by
        simpa [List.append_assoc] using h
      have hcont := exec_continue k keepOf r p ps hp hfull fs last m fs' cs c abs h'
      have ha' := append_set fs (r ++ p) hfull [] c
      simp only [List.nil_append] at ha'
      simp only [fileCmds, List.map_cons, List.cons_append, execCmds]
      rw [execCmd_createOrUpdate k keepOf _ r p ps rfl hp]
      simp only [execCreateOrUpdate, reduceCtorEq, ↓reduceIte, hc, ha']
      simp only [fileCmds] at hcont
      rw [hcont]
      rfl

/-! ### whole traces -/

namespace C01b
/-- (as `C01_exec_bridge`, ordered: deleteFile, deleteSymlink, deleteFolder, createFolder, createSymlink) -/
theorem exec_bridge (k : ChunkCfg) (keepOf : List FilterSpec → String → Bool) (st : DoerSt) (r p : FPath) (ps : String)
    (hr : st.root = some (r, false)) (hp : relComps ps = some p) :
    execCmd k keepOf st (.deleteFile ps) = reply st (st.fs.unlink (r ++ p)) .deleteFile ∧
    (∀ kd, execCmd k keepOf st (.deleteSymlink ps kd) = reply st (st.fs.unlink (r ++ p)) .deleteSymlink) ∧
    execCmd k keepOf st (.deleteFolder ps) = reply st (st.fs.rmdir (r ++ p)) .deleteFolder ∧
    execCmd k keepOf st (.createFolder ps) = reply st (st.fs.mkdir (r ++ p)) .createFolder ∧
    (∀ kd t, execCmd k keepOf st (.createSymlink ps kd t) = reply st (st.fs.mksymlink (r ++ p) (writeLinkB '/' t)) .createSymlink) := by
  simp [execCmd, hr, Cmd.path?, fullOf, hp, Cmd.isFolderOp]
end C01b


def idle (fs : FS) (abs : List Comp) (r : FPath) : DoerSt := ⟨fs, abs, some (r, false), none, none⟩

theorem execCmds_append (k : ChunkCfg) (keepOf : List FilterSpec → String → Bool) (a b : List Cmd) :
    ∀ (st st1 : DoerSt) (o1 : List (List Resp)), execCmds k keepOf st a = (st1, o1, none) →
      execCmds k keepOf st (a ++ b) = ((execCmds k keepOf st1 b).1, o1 ++ (execCmds k keepOf st1 b).2.1, (execCmds k keepOf st1 b).2.2) := by
  induction a with
  | nil =>
    intro st st1 o1 h
    simp only [execCmds, Prod.mk.injEq] at h
    obtain ⟨rfl, rfl, -⟩ := h
    simp
  | cons c rest ih =>
    intro st st1 o1 h
    simp only [List.cons_append, execCmds] at h ⊢
    cases hx : execCmd k keepOf st c with
    | ok st' out =>
      simp only [hx] at h ⊢
      simp only [Prod.mk.injEq] at h
      obtain ⟨h1, h2, h3⟩ := h
      have := ih st' st1 (execCmds k keepOf st' rest).2.1 (by rw [← h1, ← h3])
      rw [this, ← h2]
      simp
    | escape => simp [hx] at h
    | panic => simp [hx] at h
    | badPath => simp [hx] at h

/-- the boss's delete command for a destination entry (`kd`: the link kind it was listed with) -/
def delCmdOf (kd : FPath → SymKind) (x : FPath × Node) : Cmd :=
  match x.2 with
  | .folder => .deleteFolder (pathStr x.1)
  | .symlink _ => .deleteSymlink (pathStr x.1) (kd x.1)
  | _ => .deleteFile (pathStr x.1)

/-- the boss's creation commands for a source entry; `parts` says how a file's bytes are cut into parts -/
def cpyCmdsOf (ks : FPath → SymKind) (parts : FPath → List (List UInt8) × List UInt8) (x : FPath × SEntry) : List Cmd :=
  match x.2 with
  | .folder => [.createFolder (pathStr x.1)]
  | .link t => [.createSymlink (pathStr x.1) (ks x.1) t]
  | .file _ m => fileCmds (pathStr x.1) (parts x.1).1 (parts x.1).2 m

theorem exec_dels (k : ChunkCfg) (keepOf : List FilterSpec → String → Bool) (kd : FPath → SymKind) (abs : List Comp) (r : FPath) :
    ∀ (dels : List (FPath × Node)) (fs fs1 : FS), (∀ x ∈ dels, GoodPath x.1) →
      runOps (fun f x => delOp f r x) fs dels = .ok fs1 →
      execCmds k keepOf (idle fs abs r) (dels.map (delCmdOf kd)) = (idle fs1 abs r, List.replicate dels.length [], none) := by
  intro dels
  induction dels with
  | nil =>
    intro fs fs1 _ h
    simp only [runOps, OpR.ok.injEq] at h
    subst h
    simp [execCmds]
  | cons x rest ih =>
    intro fs fs1 hg h
    simp only [runOps, OpR.bind] at h
    cases hd : delOp fs r x with
    | err => simp [hd] at h
    | escape => simp [hd] at h
    | ok fs' =>
      simp only [hd] at h
      have hrel := relComps_pathStr x.1 (hg x (by simp))
      have b := C01b.exec_bridge k keepOf (idle fs abs r) r x.1 (pathStr x.1) rfl hrel
      have hrest := ih fs' fs1 (fun y hy => hg y (by simp [hy])) h
      simp only [List.map_cons, execCmds, List.length_cons, List.replicate_succ]
      obtain ⟨p, n⟩ := x
      cases n with
      | folder =>
        simp only [delOp] at hd
        simp only [delCmdOf]
        rw [b.2.2.1, show (idle fs abs r).fs = fs from rfl, hd]
        simp only [reply]
        rw [show ({ idle fs abs r with fs := fs' } : DoerSt) = idle fs' abs r from rfl, hrest]
      | file bb mt =>
        simp only [delOp] at hd
        simp only [delCmdOf]
        rw [b.1, show (idle fs abs r).fs = fs from rfl, hd]
        simp only [reply]
        rw [show ({ idle fs abs r with fs := fs' } : DoerSt) = idle fs' abs r from rfl, hrest]
      | symlink t =>
        simp only [delOp] at hd
        simp only [delCmdOf]
        rw [b.2.1, show (idle fs abs r).fs = fs from rfl, hd]
        simp only [reply]
        rw [show ({ idle fs abs r with fs := fs' } : DoerSt) = idle fs' abs r from rfl, hrest]
      | special =>
        simp only [delOp] at hd
        simp only [delCmdOf]
        rw [b.1, show (idle fs abs r).fs = fs from rfl, hd]
        simp only [reply]
        rw [show ({ idle fs abs r with fs := fs' } : DoerSt) = idle fs' abs r from rfl, hrest]

theorem exec_cpys (k : ChunkCfg) (keepOf : List FilterSpec → String → Bool) (ks : FPath → SymKind)
    (parts : FPath → List (List UInt8) × List UInt8) (abs : List Comp) (r : FPath) :
    ∀ (cpys : List (FPath × SEntry)) (fs fs1 : FS), (∀ x ∈ cpys, GoodPath x.1) →
      (∀ x ∈ cpys, ∀ b m, x.2 = .file b m → (parts x.1).1.flatten ++ (parts x.1).2 = b) →
      runOps (fun f x => cpyOp f r x) fs cpys = .ok fs1 →
      execCmds k keepOf (idle fs abs r) (cpys.flatMap (cpyCmdsOf ks parts))
        = (idle fs1 abs r, List.replicate (cpys.flatMap (cpyCmdsOf ks parts)).length [], none) := by
  intro cpys
  induction cpys with
  | nil =>
    intro fs fs1 _ _ h
    simp only [runOps, OpR.ok.injEq] at h
    subst h
    simp [execCmds]
  | cons x rest ih =>
    intro fs fs1 hg hparts h
    simp only [runOps, OpR.bind] at h
    cases hd : cpyOp fs r x with
    | err => simp [hd] at h
    | escape => simp [hd] at h
    | ok fs' =>
      simp only [hd] at h
      have hrel := relComps_pathStr x.1 (hg x (by simp))
      have b := C01b.exec_bridge k keepOf (idle fs abs r) r x.1 (pathStr x.1) rfl hrel
      have hrest := ih fs' fs1 (fun y hy => hg y (by simp [hy])) (fun y hy => hparts y (by simp [hy])) h
      have hone : execCmds k keepOf (idle fs abs r) (cpyCmdsOf ks parts x)
          = (idle fs' abs r, List.replicate (cpyCmdsOf ks parts x).length [], none) := by
        obtain ⟨p, e⟩ := x
        cases e with
        | folder =>
          simp only [cpyOp] at hd
          simp only [cpyCmdsOf, execCmds, List.length_cons, List.length_nil, List.replicate_succ, List.replicate_zero]
          rw [b.2.2.2.1, show (idle fs abs r).fs = fs from rfl, hd]
          rfl
        | link t =>
          simp only [cpyOp] at hd
          simp only [cpyCmdsOf, execCmds, List.length_cons, List.length_nil, List.replicate_succ, List.replicate_zero]
          rw [b.2.2.2.2, show (idle fs abs r).fs = fs from rfl, hd]
          rfl
        | file bb m =>
          simp only [cpyOp] at hd
          have hb := hparts (p, .file bb m) (by simp) bb m rfl
          simp only at hb
          rw [← hb] at hd
          have := exec_fileCmds k keepOf fs abs r p (pathStr p) hrel (parts p).1 (parts p).2 m fs' hd
          simp only [cpyCmdsOf]
          rw [show idle fs abs r = ⟨fs, abs, some (r, false), none, none⟩ from rfl, this]
          simp [fileCmds, idle]
      rw [List.flatMap_cons, execCmds_append k keepOf _ _ _ _ _ hone, hrest]
      simp [List.replicate_append_replicate]

/-- **The doer model executing the boss's destination trace of a sync is `runOps` of the plan**: one delete
command per planned deletion, the marker that separates the phases, then the creation commands of the planned
copies - files cut into parts in any way - run by `exec_command` from an idle doer whose root is set leave
exactly the file system the two phases of `syncDest` leave, with no error response, nothing in progress
and nothing outside the model (`escape`, `panic`, bad path) reached. -/
theorem exec_trace (k : ChunkCfg) (keepOf : List FilterSpec → String → Bool) (kd ks : FPath → SymKind)
    (parts : FPath → List (List UInt8) × List UInt8) (abs : List Comp) (r : FPath) (ph : Phase)
    (dels : List (FPath × Node)) (cpys : List (FPath × SEntry)) (fs fs1 fs2 : FS)
    (hgd : ∀ x ∈ dels, GoodPath x.1) (hgc : ∀ x ∈ cpys, GoodPath x.1)
    (hparts : ∀ x ∈ cpys, ∀ b m, x.2 = .file b m → (parts x.1).1.flatten ++ (parts x.1).2 = b)
    (h1 : runOps (fun f x => delOp f r x) fs dels = .ok fs1)
    (h2 : runOps (fun f x => cpyOp f r x) fs1 cpys = .ok fs2) :
    execCmds k keepOf (idle fs abs r) (dels.map (delCmdOf kd) ++ (.marker ph :: cpys.flatMap (cpyCmdsOf ks parts)))
      = (idle fs2 abs r,
         List.replicate dels.length [] ++ ([.marker] :: List.replicate (cpys.flatMap (cpyCmdsOf ks parts)).length []), none) := by
  rw [execCmds_append k keepOf _ _ _ _ _ (exec_dels k keepOf kd abs r dels fs fs1 hgd h1)]
  simp only [execCmds, execCmd]
  rw [exec_cpys k keepOf ks parts abs r cpys fs1 fs2 hgc hparts h2]

/-- … for the plan of `syncDest` -/
theorem exec_trace_syncDest (k : ChunkCfg) (keepOf : List FilterSpec → String → Bool) (kd ks : FPath → SymKind)
    (parts : FPath → List (List UInt8) × List UInt8) (abs : List Comp) (r : FPath) (ph : Phase)
    (src : FPath → Option SEntry) (ls : List (FPath × SEntry)) (ld : List (FPath × Node)) (fs fs2 : FS)
    (hgd : ∀ x ∈ ld, GoodPath x.1) (hgc : ∀ x ∈ ls, GoodPath x.1)
    (hparts : ∀ x ∈ ls, ∀ b m, x.2 = .file b m → (parts x.1).1.flatten ++ (parts x.1).2 = b)
    (h : syncDest fs r src ls ld = .ok fs2) :
    execCmds k keepOf (idle fs abs r)
        ((planDel src ld).map (delCmdOf kd) ++ (.marker ph :: (planCpy (fun p => fs.get (r ++ p)) ls).flatMap (cpyCmdsOf ks parts)))
      = (idle fs2 abs r,
         List.replicate (planDel src ld).length [] ++
           ([.marker] :: List.replicate ((planCpy (fun p => fs.get (r ++ p)) ls).flatMap (cpyCmdsOf ks parts)).length []), none) := by
  unfold syncDest OpR.bind at h
  cases h1 : runOps (fun f x => delOp f r x) fs (planDel src ld) with
  | err => simp [h1] at h
  | escape => simp [h1] at h
  | ok fs1 =>
    simp only [h1] at h
    exact exec_trace k keepOf kd ks parts abs r ph _ _ fs fs1 fs2
      (fun x hx => hgd x (by unfold planDel at hx; exact (List.mem_filter.mp (List.mem_reverse.mp hx)).1))
      (fun x hx => hgc x (by unfold planCpy at hx; exact (List.mem_filter.mp hx).1))
      (fun x hx => hparts x (by unfold planCpy at hx; exact (List.mem_filter.mp hx).1)) h1 h

/-! ### the same commands in the boss model's spelling (`deleteCmd`, `chunkCmd`) -/

theorem deleteCmd_eq (k : SymKind) (p : FPath) (n : Node) (hn : n ≠ .special) :
    deleteCmd (pathStr p) (match n with
        | .file b (.at m) => Details.file m b.length
        | .file b .fresh => .file (-1) b.length
        | .folder => .folder
        | .symlink text => .symlink k (readLinkB text)
        | .special => .folder) = delCmdOf (fun _ => k) (p, n) := by
  cases n with
  | file b mt => cases mt <;> rfl
  | folder => rfl
  | symlink t => rfl
  | special => exact absurd rfl hn

theorem chunkCmds_eq (ps : String) (init : List (List UInt8)) (last : List UInt8) (m : Int) :
    (init.map (fun c => (c, true)) ++ [(last, false)]).map (fun ch => chunkCmd ps ch.1 m ch.2) = fileCmds ps init last m := by
  simp [fileCmds, chunkCmd, List.map_map, Function.comp_def]

end Rj
