import RjModel.Lemmas.BossTraces
/-! Which errors can come out of which phase, and what has been sent when a consent error ends a run. -/
namespace Rj

def ErrKind.isConsent : ErrKind → Bool
  | .rootErr | .entryErr | .newerErr | .olderErr | .sameErr => true
  | _ => false

def Outcome.isConsentErr : Outcome → Bool
  | .err k => k.isConsent
  | _ => false

theorem deleteLoop_err (c : Ctx) (errAt : Option Nat) (l : List (String × (Details × DelReason))) (x : XState) (st : Stats) (e : ErrKind)
    (h : (deleteLoop c errAt l x st).1 = some e) : e.isConsent = false := by
  induction l generalizing x st with
  | nil => simp [deleteLoop] at h
  | cons it rest ih =>
    obtain ⟨p, d, r⟩ := it
    simp only [deleteLoop] at h
    by_cases hp : ((delStepState c x p d).poll errAt).1 = true
    · simp only [hp, ↓reduceIte, Option.some.injEq] at h; subst h; rfl
    · simp only [hp, Bool.false_eq_true, ↓reduceIte] at h; exact ih _ _ h

theorem chunkLoop_err (errAt : Option Nat) (p : String) (size : Nat) (mtime : Int) (s : FileScript) (x : XState) (off : Nat) (e : ErrKind)
    (h : (chunkLoop errAt p size mtime s x off).1 = some e) : e.isConsent = false := by
  induction s generalizing x off with
  | nil => simp [chunkLoop] at h; subst h; rfl
  | cons ch rest ih =>
    obtain ⟨d, more⟩ := ch
    simp only [chunkLoop] at h
    by_cases hov : off + d.length > size
    · simp only [hov, ↓reduceIte, Option.some.injEq] at h; subst h; rfl
    · simp only [hov, ↓reduceIte] at h
      by_cases hp : ((x.sendDest (chunkCmd p d mtime more)).poll errAt).1 = true
      · simp only [hp, ↓reduceIte, Option.some.injEq] at h; subst h; rfl
      · simp only [hp, Bool.false_eq_true, ↓reduceIte] at h
        cases more with
        | true => simp only [↓reduceIte] at h; exact ih _ _ h
        | false => simp at h

theorem copyOne_err (c : Ctx) (errAt : Option Nat) (files : List (String × FileScript)) (p : String) (d : Details) (x : XState) (st : Stats)
    (e : ErrKind) (h : (copyOne c errAt files p d x st).1 = some e) : e.isConsent = false := by
  cases d with
  | file mtime size =>
    cases hd : c.dryRun with
    | true => simp [copyOne, hd] at h
    | false =>
      simp only [copyOne, hd, Bool.false_eq_true, ↓reduceIte, copyFileReal] at h
      have hc := chunkLoop_err errAt p size mtime (fileScript files p) (x.sendSrc (.getFileContent p)) 0
      generalize chunkLoop errAt p size mtime (fileScript files p) (x.sendSrc (.getFileContent p)) 0 = r at h hc
      obtain ⟨e1, xx, off⟩ := r
      cases e1 with
      | some e2 => simp only [Option.some.injEq] at h; subst h; exact hc e2 rfl
      | none =>
        simp only at h
        by_cases ho : off = size
        · simp [ho] at h
        · simp only [ne_eq, ho, not_false_eq_true, ↓reduceIte, Option.some.injEq] at h; subst h; rfl
  | folder => cases hd : c.dryRun <;> simp [copyOne, hd] at h
  | symlink k t => cases hd : c.dryRun <;> simp [copyOne, hd] at h

theorem copyLoop_err (c : Ctx) (errAt : Option Nat) (files : List (String × FileScript))
    (l : List (String × (Details × CopyReason))) (x : XState) (st : Stats) (e : ErrKind)
    (h : (copyLoop c errAt files l x st).1 = some e) : e.isConsent = false := by
  induction l generalizing x st with
  | nil => simp [copyLoop] at h
  | cons it rest ih =>
    obtain ⟨p, d, r⟩ := it
    simp only [copyLoop] at h
    have h1 := copyOne_err c errAt files p d x st
    generalize copyOne c errAt files p d x st = r1 at h h1
    obtain ⟨e1, x1, st1⟩ := r1
    cases e1 with
    | some e2 => simp only [Option.some.injEq] at h; subst h; exact h1 e2 rfl
    | none =>
      simp only at h
      by_cases hp : (x1.poll errAt).1 = true
      · simp only [hp, ↓reduceIte, Option.some.injEq] at h; subst h; rfl
      · simp only [hp, Bool.false_eq_true, ↓reduceIte] at h; exact ih _ _ h

/-- the execution phase never ends with a consent error, and with a visible destination error it
never ends `ok` -/
theorem execPhase_outcome (sc : Scenario) (ctx : Ctx) (x : XState) (conf : Conf)
    (del : OMap (Details × DelReason)) (cpy : OMap (Details × CopyReason)) :
    (execPhase sc ctx x conf del cpy).outcome.isConsentErr = false ∧
    (sc.errAtPoll.isSome → (execPhase sc ctx x conf del cpy).outcome ≠ .ok) ∧
    (execPhase sc ctx x conf del cpy).prompts = conf.prompts := by
  unfold execPhase
  have h1 := deleteLoop_err ctx sc.errAtPoll del.iter x {}
  generalize deleteLoop ctx sc.errAtPoll del.iter x {} = r1 at h1
  obtain ⟨e1, x1, st1⟩ := r1
  cases e1 with
  | some e =>
    have := h1 e rfl
    simp [mkResult, Outcome.isConsentErr, this]
  | none =>
    simp only
    by_cases hb : barrierFails sc ctx del (x1.sendDest (.marker .copying)) = true
    · simp [hb, mkResult, Outcome.isConsentErr, ErrKind.isConsent]
    simp only [hb, Bool.false_eq_true, ↓reduceIte]
    have h2 := copyLoop_err ctx sc.errAtPoll sc.files cpy.iter (x1.sendDest (.marker .copying)) st1
    generalize copyLoop ctx sc.errAtPoll sc.files cpy.iter (x1.sendDest (.marker .copying)) st1 = r2 at h2
    obtain ⟨e2, x2, st2⟩ := r2
    cases e2 with
    | some e =>
      have := h2 e rfl
      simp [mkResult, Outcome.isConsentErr, this]
    | none =>
      simp only
      cases sc.errAtPoll with
      | some j => simp [mkResult, Outcome.isConsentErr, ErrKind.isConsent]
      | none => simp [mkResult, Outcome.isConsentErr]

end Rj

namespace Rj

/-- commands that do not delete or overwrite anything on the destination -/
def PD0 (c : Cmd) : Prop := c.mutating = false ∨ c = .createRootAncestors

/-- what a run has sent to the destination when it ends with a consent error, or `ok` although a
destination error was scripted -/
def Before (sc : Scenario) (r : RunResult) : Prop :=
  (r.outcome.isConsentErr = true → ∀ c ∈ r.destTrace, PD0 c) ∧
  (sc.errAtPoll.isSome → r.outcome = .ok → ∀ c ∈ r.destTrace, PD0 c)

abbrev T0 := TrOK (fun _ => True) PD0

theorem before_mk {sc : Scenario} {x : XState} (h : T0 x) (o : Outcome) (c : Conf) : Before sc (mkResult o x c) :=
  ⟨fun _ => h.2, fun _ _ => h.2⟩

theorem before_exec (sc : Scenario) (ctx : Ctx) (x : XState) (conf : Conf)
    (del : OMap (Details × DelReason)) (cpy : OMap (Details × CopyReason)) : Before sc (execPhase sc ctx x conf del cpy) := by
  obtain ⟨h1, h2, _⟩ := execPhase_outcome sc ctx x conf del cpy
  refine ⟨fun h => ?_, fun hs ho => absurd ho (h2 hs)⟩
  rw [h1] at h; exact absurd h (by simp)

theorem before_query (sc : Scenario) (fs : List FilterSpec) (ctx : Ctx) (x : XState) (conf : Conf) (pc : PCfg)
    (srcD : Details) (destD : Option Details) (h : T0 x) : Before sc (queryPhase sc fs ctx x conf pc srcD destD) := by
  unfold queryPhase
  cases afterRoots pc srcD destD with
  | none => exact before_mk h _ _
  | some t =>
    obtain ⟨ps, srcAsked, destAsked⟩ := t
    simp only
    have hx1 : T0 (if srcAsked = true then x.sendSrc (.getEntries fs) else x) := by
      cases srcAsked
      · simpa using h
      · simpa using h.sendSrc _ trivial
    generalize (if srcAsked = true then x.sendSrc (.getEntries fs) else x) = x1 at hx1
    have hx2 : T0 (if destAsked = true then x1.sendDest (.getEntries fs) else x1) := by
      cases destAsked
      · simpa using hx1
      · simpa using hx1.sendDest _ (Or.inl rfl)
    generalize (if destAsked = true then x1.sendDest (.getEntries fs) else x1) = x2 at hx2
    by_cases hq : (sc.errInQuery && (destD.isNone && !ctx.dryRun) && (srcAsked || destAsked)) = true
    · simp only [hq, ↓reduceIte]; exact before_mk hx2 _ _
    · simp only [hq, Bool.false_eq_true, ↓reduceIte]
      cases queryLoop pc srcAsked destAsked sc.events ⟨ps, !srcAsked, !destAsked⟩ with
      | error e =>
        cases e with
        | none => exact before_mk hx2 _ _
        | some e => exact before_mk hx2 _ _
      | ok q =>
        simp only
        generalize confirmActions conf q.ps.del.reverseOrder q.ps.cpy = r
        obtain ⟨e, conf', del', cpy'⟩ := r
        cases e with
        | some e => exact before_mk hx2 _ _
        | none => exact before_exec sc ctx x2 conf' del' cpy'

theorem before_fromRoots (w : Wrap) (sc : Scenario) (fs : List FilterSpec) (ctx : Ctx)
    (x : XState) (srcD : Details) (destD : Option Details) (destDiff : Bool) (h : T0 x) :
    Before sc (runFromRoots w sc fs ctx x srcD destD destDiff) := by
  unfold runFromRoots
  simp only
  generalize gateOf sc { sameTimeSkip := sc.beh.same == Beh.skip, destDiff := destDiff } srcD destD = gate
  obtain ⟨g, conf⟩ := gate
  cases g with
  | none => exact before_mk h _ _
  | some b =>
    cases b with
    | false => exact before_mk h _ _
    | true =>
      simp only
      apply before_query
      by_cases ha : (destD.isNone && !ctx.dryRun) = true
      · simp only [ha, ↓reduceIte]; exact h.sendDest _ (Or.inr rfl)
      · simp only [ha, Bool.false_eq_true, ↓reduceIte]; exact h

/-- for every scenario: a run that ends with a consent error (a behaviour resolved to `error`, a
prompt was cancelled or could not be shown), or that ends `ok` although the destination reported an
error, has sent the destination nothing that deletes or overwrites -/
theorem run_before (w : Wrap) (sc : Scenario) : Before sc (run w sc) := by
  have h0 : T0 ⟨[], [], [], 0⟩ := ⟨fun c hc => by simp at hc, fun c hc => by simp at hc⟩
  unfold run
  simp only
  cases compileFilters w.pre w.post sc.filters with
  | none => exact before_mk h0 _ _
  | some fs =>
    simp only
    have h1 := h0.sendSrc (.setRoot sc.srcRoot) trivial
    cases sc.srcReply with
    | other => exact before_mk h1 _ _
    | details d _ srcSep =>
      cases d with
      | none => exact before_mk h1 _ _
      | some srcD =>
        simp only
        cases validateTrailingSlash sc.srcRoot srcD with
        | none => exact before_mk h1 _ _
        | some b =>
          cases b with
          | false => exact before_mk h1 _ _
          | true =>
            simp only
            have h2 := h1.sendDest (.setRoot sc.destRoot) (Or.inl rfl)
            cases sc.destReply with
            | other => exact before_mk h2 _ _
            | details destD destDiff destSep =>
              simp only
              generalize destValid sc.destRoot destD = v
              cases v with
              | none => exact before_mk h2 _ _
              | some b =>
                cases b with
                | false => exact before_mk h2 _ _
                | true =>
                  simp only
                  by_cases hs : (srcD.isFileOrSymlink && destHasSlash sc.destRoot) = true
                  · simp only [hs, ↓reduceIte]
                    have h3 := h2.sendDest (.setRoot (sc.destRoot ++ lastComponent sc.srcRoot)) (Or.inl rfl)
                    cases sc.destReply2 with
                    | other => exact before_mk h3 _ _
                    | details destD2 _ _ => exact before_fromRoots w sc fs _ _ srcD destD2 destDiff h3
                  · simp only [hs, Bool.false_eq_true, ↓reduceIte]
                    exact before_fromRoots w sc fs _ _ srcD destD destDiff h2

end Rj
