import RjModel.Model.Run
/-! Lemmas about the model of `execute_spec` (used by `Props/C07.lean`, `Props/C09.lean`). -/
namespace Rj.Run

theorem loop_ref (outs : List Bool) : ∀ n last,
    loop RunSkel.ref outs n last =
      (if outs.all id then (if outs = [] then last else 0) else 12,
       n + (if outs.all id then outs.length else (outs.takeWhile id).length + 1),
       !outs.all id) := by
  induction outs with
  | nil => intro n last; simp [loop]
  | cons o rest ih =>
    intro n last
    cases o with
    | true =>
      simp only [loop, ↓reduceIte, ih, List.all_cons, id, Bool.true_and, List.takeWhile_cons, List.length_cons]
      by_cases h : rest.all id = true
      · simp [h]; omega
      · simp [h]; omega
    | false => simp [loop, RunSkel.ref]

/-- **Exit status 0 iff everything succeeded**: both doers were set up and every sync of the spec ended `Ok` - for any
number of syncs and any pattern of failures.  In particular a failing sync makes the run end non-zero however many
later syncs would have succeeded. -/
theorem exit_zero_iff_all_ok (srcOk destOk : Bool) (outs : List Bool) :
    (executeSpec RunSkel.ref srcOk destOk outs).code = 0 ↔ (srcOk = true ∧ destOk = true ∧ outs.all id = true) := by
  unfold executeSpec
  have hl := loop_ref outs 0 0
  cases srcOk <;> cases destOk <;> simp only [hl] <;> by_cases h : outs.all id = true <;> simp [RunSkel.ref, h]

/-- the documented codes: 10 the source doer, 11 the destination doer, 12 a sync -/
theorem exit_codes (srcOk destOk : Bool) (outs : List Bool) :
    let r := executeSpec RunSkel.ref srcOk destOk outs
    (r.code = 10 ↔ srcOk = false) ∧ (r.code = 11 ↔ (srcOk = true ∧ destOk = false)) ∧
    (r.code = 12 ↔ (srcOk = true ∧ destOk = true ∧ outs.all id = false)) ∧ r.code ∈ [0, 10, 11, 12] := by
  unfold executeSpec
  have hl := loop_ref outs 0 0
  cases srcOk <;> cases destOk <;> simp only [hl] <;> by_cases h : outs.all id = true <;> simp [RunSkel.ref, h]

/-- **Nothing runs after a failure**: the syncs started are exactly those up to and including the first failing one -/
theorem syncs_run (outs : List Bool) :
    (executeSpec RunSkel.ref true true outs).syncsRun =
      if outs.all id then outs.length else (outs.takeWhile id).length + 1 := by
  unfold executeSpec
  have hl := loop_ref outs 0 0
  simp only [hl]
  by_cases h : outs.all id = true <;> simp [RunSkel.ref, h]

/-- **Every doer that was launched is shut down exactly once, on every path** (so no path leaves a doer thread or a
remote doer process behind when `execute_spec` returns) -/
theorem every_launched_comms_shut_down_once (srcOk destOk : Bool) (outs : List Bool) :
    let r := executeSpec RunSkel.ref srcOk destOk outs
    r.srcShutdowns = (if r.srcLaunched then 1 else 0) ∧ r.destShutdowns = (if r.destLaunched then 1 else 0) := by
  unfold executeSpec
  have hl := loop_ref outs 0 0
  cases srcOk <;> cases destOk <;> simp only [hl] <;> by_cases h : outs.all id = true <;> simp [RunSkel.ref, h]

end Rj.Run
