import RjModel.Lemmas.ExeLemmas
/-! PE: alignment arithmetic and the pointer-moving loop of `add_section_to_pe` (for `Props/C19.lean`). -/
namespace Rj.Exe


theorem alignUp_bounds (x m : Nat) (hx : 1 ≤ x) (hm : 1 ≤ m) : x ≤ alignUp x m ∧ alignUp x m < x + m := by
  unfold alignUp
  have h1 := Nat.div_add_mod (x - 1) m
  have h2 := Nat.mod_lt (x - 1) hm
  have h3 : ((x - 1) / m + 1) * m = m * ((x - 1) / m) + m := by rw [Nat.add_mul, Nat.one_mul, Nat.mul_comm]
  rw [h3]
  omega

theorem align_eq (w x m : Nat) (hx : 1 ≤ x) (hm : 1 ≤ m) (hw : x + m < w) : align w x m = .ok (alignUp x m) := by
  have hb := alignUp_bounds x m hx hm
  have hq : (x - 1) / m + 1 ≤ alignUp x m := by
    unfold alignUp
    exact Nat.le_mul_of_pos_right _ hm
  have h1 : (x - 1) / m + 1 < w := by omega
  have h2 : ((x - 1) / m + 1) * m < w := by
    have : ((x - 1) / m + 1) * m = alignUp x m := rfl
    omega
  have hm0 : m ≠ 0 := by omega
  simp [align, sub, div, add, mul, hx, hm0, h1, h2, Bind.bind, R.bind, alignUp]

theorem bumpPointers_step (b : Bytes) (hdrs fa n idx : Nat) :
    bumpPointers b hdrs fa (n + 1) idx = (do
      let h ← add U64 hdrs (idx * 40)
      let po ← add U64 h 20
      let orig ← readField b po 4
      let nw ← add U32 orig fa
      let b ← writeField b po 4 nw
      bumpPointers b hdrs fa n (idx + 1)) := rfl

/-- the loop that moves the raw-data pointers of the existing sections: it succeeds, keeps the length, adds `fa` to exactly
the 4-byte `PointerToRawData` fields of the sections `start ≤ idx < start + n` and leaves every other byte alone -/
theorem bumpPointers_spec (hdrs fa : Nat) (n : Nat) : ∀ (t : Bytes) (start : Nat),
    t.length < U64 →
    (∀ idx, start ≤ idx → idx < start + n →
        hdrs + idx * 40 + 24 ≤ t.length ∧ leVal (slice t (hdrs + idx * 40 + 20) 4) + fa < U32) →
    ∃ t', bumpPointers t hdrs fa n start = .ok t' ∧ t'.length = t.length ∧
      (∀ j, (∀ idx, start ≤ idx → idx < start + n → ¬ (hdrs + idx * 40 + 20 ≤ j ∧ j < hdrs + idx * 40 + 24)) → t'[j]? = t[j]?) ∧
      (∀ idx, start ≤ idx → idx < start + n →
        leVal (slice t' (hdrs + idx * 40 + 20) 4) = leVal (slice t (hdrs + idx * 40 + 20) 4) + fa) := by
  induction n with
  | zero =>
    intro t start _ _
    exact ⟨t, rfl, rfl, fun _ _ => rfl, fun idx h1 h2 => by omega⟩
  | succ n ih =>
    intro t start hU hin
    obtain ⟨h0a, h0b⟩ := hin start (Nat.le_refl _) (by omega)
    have hb4 : ∀ v, (leBytes 4 v).length = 4 := fun v => length_leBytes 4 v
    have hw : hdrs + start * 40 + 20 + 4 ≤ t.length := by omega
    let t1 := patch t (hdrs + start * 40 + 20) (leBytes 4 (leVal (slice t (hdrs + start * 40 + 20) 4) + fa))
    have hl1 : t1.length = t.length := length_patch _ _ _ (by rw [hb4]; exact hw)
    have hin1 : ∀ idx, start + 1 ≤ idx → idx < start + 1 + n →
        hdrs + idx * 40 + 24 ≤ t1.length ∧ leVal (slice t1 (hdrs + idx * 40 + 20) 4) + fa < U32 := by
      intro idx h1 h2
      obtain ⟨ha, hb⟩ := hin idx (by omega) (by omega)
      refine ⟨by rw [hl1]; exact ha, ?_⟩
      have : slice t1 (hdrs + idx * 40 + 20) 4 = slice t (hdrs + idx * 40 + 20) 4 :=
        slice_patch_disjoint _ _ _ _ _ (by rw [hb4]; exact hw) (by rw [hb4]; right; omega)
      rw [this]; exact hb
    obtain ⟨t', he, hl', hfr, hval⟩ := ih t1 (start + 1) (by rw [hl1]; exact hU) hin1
    have hU32 : U32 = 2 ^ 32 := rfl
    have hU64 : U64 = 2 ^ 64 := rfl
    refine ⟨t', ?_, by rw [hl', hl1], ?_, ?_⟩
    · rw [bumpPointers_step]
      simp only [add, show hdrs + start * 40 < U64 by omega, ↓reduceIte, bind_ok, show hdrs + start * 40 + 20 < U64 by omega]
      rw [readField_eq _ _ _ hw (by omega)]
      simp only [bind_ok, h0b, ↓reduceIte]
      rw [writeField_eq _ _ _ _ hw (by omega)]
      simp only [bind_ok]
      exact he
    · intro j hj
      rw [hfr j (fun idx h1 h2 => hj idx (by omega) (by omega))]
      show (patch _ _ _)[j]? = _
      rw [getElem?_patch _ _ _ _ (by rw [hb4]; exact hw)]
      have := hj start (Nat.le_refl _) (by omega)
      rw [hb4]
      by_cases h1 : j < hdrs + start * 40 + 20
      · rw [if_pos h1]
      · rw [if_neg h1, if_neg (by omega)]
    · intro idx h1 h2
      by_cases hi : idx = start
      · subst hi
        have hsl : slice t' (hdrs + idx * 40 + 20) 4 = slice t1 (hdrs + idx * 40 + 20) 4 := by
          apply slice_congr
          intro i hi4
          apply hfr
          intro idx' h1' h2' hc
          omega
        rw [hsl]
        show leVal (slice (patch _ _ _) _ 4) = _
        have := slice_patch_same t (hdrs + idx * 40 + 20) (leBytes 4 (leVal (slice t (hdrs + idx * 40 + 20) 4) + fa)) (by rw [hb4]; exact hw)
        rw [hb4] at this
        rw [this, leVal_leBytes]
        have : (256 : Nat) ^ 4 = 2 ^ 32 := by decide
        omega
      · rw [hval idx (by omega) (by omega)]
        have : slice t1 (hdrs + idx * 40 + 20) 4 = slice t (hdrs + idx * 40 + 20) 4 :=
          slice_patch_disjoint _ _ _ _ _ (by rw [hb4]; exact hw) (by rw [hb4]; right; omega)
        rw [this]

end Rj.Exe
