import RjModel.Lemmas.PeLemmas1
/-! PE: the layout predicate `ValidPe` and an explicit description of what `add_section_to_pe` returns on it. -/
namespace Rj.Exe

theorem validatePe_eq (b : Bytes) (h1 : 0x3c + 4 ≤ b.length) (h2 : pSig b + 4 ≤ b.length) (hU : b.length < U64)
    (h3 : leVal (slice b (pSig b) 4) = 0x00004550) : validatePe b = .ok (pFh b) := by
  unfold validatePe
  rw [readField_eq b 0x3c 4 h1 (by omega)]
  simp only [bind_ok]
  show (do let sig ← readField b (pSig b) 4; if sig ≠ 0x00004550 then R.err else add U64 (pSig b) 4) = _
  rw [readField_eq b (pSig b) 4 h2 (by omega)]
  simp only [bind_ok, h3, ne_eq, not_true_eq_false, ↓reduceIte, add, pFh]
  rw [if_pos (by omega)]

def peHdr (name : Bytes) (newVa rawSize : Nat) : Bytes :=
  patch (patch (patch (patch (name ++ zeros (40 - name.length)) 8 (leBytes 4 1)) 12 (leBytes 4 newVa)) 16 (leBytes 4 rawSize)) 36 (leBytes 4 0x40)

theorem addPe_eq (b name payload : Bytes) (v : ValidPe b name payload) :
    ∃ b2 img nh,
      b2.length = b.length + pBump b ∧
      (∀ j, j < pEnd b → (∀ i, i < pNum b → ¬ (pHdrs b + i * 40 + 20 ≤ j ∧ j < pHdrs b + i * 40 + 24)) →
          b2[j]? = (patch b (pFh b + 2) (leBytes 2 (pNum b + 1)))[j]?) ∧
      (∀ j, pEnd b ≤ j → b2[j + pBump b]? = b[j]?) ∧
      (∀ i, i < pNum b → leVal (slice b2 (pHdrs b + i * 40 + 20) 4) = leVal (slice b (pHdrs b + i * 40 + 20) 4) + pBump b) ∧
      addPe b name payload = .ok
        (patch (patch (patch
          ((patch b2 (pEnd b) (peHdr name (alignUp (pPrevVa b + pPrevVs b) (pSecAlign b)) (alignUp payload.length (pFileAlign b)))) ++
            zeros (alignUp (b.length + pBump b) (pFileAlign b) - (b.length + pBump b)) ++
            (payload ++ zeros (alignUp payload.length (pFileAlign b) - payload.length)))
          (pEnd b + 20) (leBytes 4 (alignUp (b.length + pBump b) (pFileAlign b))))
          (pOpt b + 56) (leBytes 4 img)) (pOpt b + 60) (leBytes 4 nh)) := by
  obtain ⟨hsig0, hsig, hnum1, hnum, hopt, hfa, hsa, hend, hsize, hva, hva1, hptr, hnames, hname0, hnamelen, hpl⟩ := v
  have hU64 : U64 = 2 ^ 64 := rfl
  have hU32 : U32 = 2 ^ 32 := rfl
  have hU16 : U16 = 2 ^ 16 := rfl
  have hb2 : ∀ v, (leBytes 2 v).length = 2 := fun v => length_leBytes 2 v
  have hb4 : ∀ v, (leBytes 4 v).length = 4 := fun v => length_leBytes 4 v
  -- layout
  have hhdrs : pFh b + 84 ≤ pHdrs b := by unfold pHdrs pOpt; omega
  have hen : pHdrs b + pNum b * 40 = pEnd b := rfl
  have hopt_ : pOpt b = pFh b + 20 := rfl
  have hfh : pFh b = pSig b + 4 := rfl
  have hL : pEnd b ≤ b.length := by omega
  have hw1 : pFh b + 2 + (leBytes 2 (pNum b + 1)).length ≤ b.length := by rw [hb2]; omega
  generalize hb1 : patch b (pFh b + 2) (leBytes 2 (pNum b + 1)) = b1
  have hl1 : b1.length = b.length := by rw [← hb1]; exact length_patch _ _ _ hw1
  have hs1 : ∀ o n, (o + n ≤ pFh b + 2 ∨ pFh b + 4 ≤ o) → slice b1 o n = slice b o n := by
    intro o n h
    rw [← hb1]
    exact slice_patch_disjoint _ _ _ _ _ hw1 (by rw [hb2]; omega)
  have hgapv := alignUp_bounds (pEnd b) (pFileAlign b) (by omega) hfa
  -- the block that makes room
  have hblock : ∃ b2, b2.length = b.length + pBump b ∧
      (∀ j, j < pEnd b → (∀ i, i < pNum b → ¬ (pHdrs b + i * 40 + 20 ≤ j ∧ j < pHdrs b + i * 40 + 24)) → b2[j]? = b1[j]?) ∧
      (∀ j, pEnd b ≤ j → b2[j + pBump b]? = b1[j]?) ∧
      (∀ i, i < pNum b → leVal (slice b2 (pHdrs b + i * 40 + 20) 4) = leVal (slice b (pHdrs b + i * 40 + 20) 4) + pBump b) ∧
      (if pGap b < 40 then (do
          let need ← sub 40 (pGap b)
          let bump ← align U64 need (pFileAlign b)
          let b' ← spliceAt b1 (pEnd b) (zeros bump)
          bumpPointers b' (pHdrs b) (bump % U32) (pNum b) 0) else R.ok b1) = .ok b2 := by
    by_cases hg : pGap b < 40
    · have hbump : pBump b = alignUp (40 - pGap b) (pFileAlign b) := by unfold pBump; rw [if_pos hg]
      have hbb := alignUp_bounds (40 - pGap b) (pFileAlign b) (by omega) hfa
      rw [← hbump] at hbb
      let b' := b1.take (pEnd b) ++ zeros (pBump b) ++ b1.drop (pEnd b)
      have hl' : b'.length = b.length + pBump b := by
        simp only [b', List.length_append, List.length_take, List.length_drop, zeros, List.length_replicate, hl1]; omega
      have hlow : ∀ j, j < pEnd b → b'[j]? = b1[j]? := by
        intro j hj
        simp only [b']
        rw [List.append_assoc, List.getElem?_append_left (by simp; omega), List.getElem?_take, if_pos hj]
      obtain ⟨t', he, hlt, hfr, hvalp⟩ := bumpPointers_spec (pHdrs b) (pBump b) (pNum b) b' 0 (by rw [hl']; omega) (by
        intro idx _ h2
        have h2' : idx < pNum b := by omega
        refine ⟨by rw [hl']; omega, ?_⟩
        have : slice b' (pHdrs b + idx * 40 + 20) 4 = slice b (pHdrs b + idx * 40 + 20) 4 := by
          rw [← hs1 _ _ (by right; omega)]
          apply slice_congr
          intro i hi
          exact hlow _ (by omega)
        rw [this]
        exact hptr idx h2')
      have hsl' : ∀ idx, idx < pNum b → slice b' (pHdrs b + idx * 40 + 20) 4 = slice b (pHdrs b + idx * 40 + 20) 4 := by
        intro idx h2'
        rw [← hs1 _ _ (by right; omega)]
        apply slice_congr
        intro i hi
        exact hlow _ (by omega)
      refine ⟨t', by rw [hlt, hl'], ?_, ?_, ?_, ?_⟩
      · intro j hj hw
        rw [hfr j (fun idx _ h2 => hw idx (by omega)), hlow j hj]
      · intro j hj
        rw [hfr _ (fun idx _ h2 => by omega)]
        simp only [b']
        rw [List.getElem?_append_right (by simp [zeros]; omega), List.getElem?_drop]
        congr 1
        simp [zeros]; omega
      · intro i hi
        rw [hvalp i (by omega) (by omega), hsl' i hi]
      · rw [if_pos hg]
        simp only [sub, show pGap b ≤ 40 by omega, ↓reduceIte, bind_ok]
        rw [align_eq U64 _ _ (by omega) hfa (by omega)]
        simp only [bind_ok, ← hbump, spliceAt, show pEnd b ≤ b1.length by omega, ↓reduceIte, Nat.mod_eq_of_lt (show pBump b < U32 by omega)]
        exact he
    · have hbump : pBump b = 0 := by unfold pBump; rw [if_neg hg]
      refine ⟨b1, by rw [hbump, hl1]; rfl, fun _ _ _ => rfl, ?_, ?_, by rw [if_neg hg]⟩
      · intro j _; rw [hbump]; rfl
      · intro i hi
        rw [hbump, hs1 _ _ (by right; omega)]; rfl
  obtain ⟨b2, hl2, hb2f, hb2hi, hb2ptr, hblk⟩ := hblock
  refine ⟨b2, alignUp (alignUp (pPrevVa b + pPrevVs b) (pSecAlign b) + 1) (pSecAlign b), alignUp (pEnd b + 40) (pFileAlign b), hl2, hb2f, ?_, hb2ptr, ?_⟩
  · intro j hj
    rw [hb2hi j hj, ← hb1, getElem?_patch _ _ _ _ hw1, hb2, if_neg (by omega), if_neg (by omega)]
  -- reads that see the input's values
  have hL1 : pEnd b ≤ b1.length := by omega
  have e_os : leVal (slice b1 (pFh b + 16) 2) = pOptSize b := by rw [hs1 _ _ (by right; omega)]; rfl
  have e_sa : leVal (slice b1 (pFh b + 20 + 32) 4) = pSecAlign b := by rw [hs1 _ _ (by right; omega)]; rfl
  have e_fa : leVal (slice b1 (pFh b + 20 + 36) 4) = pFileAlign b := by rw [hs1 _ _ (by right; omega)]; rfl
  have hn40 : (pNum b - 1) * 40 + 40 = pNum b * 40 := by
    have : pNum b = (pNum b - 1) + 1 := by omega
    rw [this, Nat.add_mul]; simp
  have e_va : leVal (slice b2 (pFh b + 20 + pOptSize b + (pNum b - 1) * 40 + 12) 4) = pPrevVa b := by
    have : slice b2 (pHdrs b + (pNum b - 1) * 40 + 12) 4 = slice b (pHdrs b + (pNum b - 1) * 40 + 12) 4 := by
      rw [← hs1 _ _ (by right; omega)]
      apply slice_congr
      intro i hi
      apply hb2f _ (by omega)
      intro k hk hc
      have := Nat.lt_or_ge k (pNum b - 1)
      omega
    exact congrArg leVal this
  have e_vs : leVal (slice b2 (pFh b + 20 + pOptSize b + (pNum b - 1) * 40 + 8) 4) = pPrevVs b := by
    have : slice b2 (pHdrs b + (pNum b - 1) * 40 + 8) 4 = slice b (pHdrs b + (pNum b - 1) * 40 + 8) 4 := by
      rw [← hs1 _ _ (by right; omega)]
      apply slice_congr
      intro i hi
      apply hb2f _ (by omega)
      intro k hk hc
      have := Nat.lt_or_ge k (pNum b - 1)
      omega
    exact congrArg leVal this
  unfold addPe
  rw [validatePe_eq b (by omega) (by omega) (by omega) hsig]
  simp only [bind_ok, add, show pFh b + 2 < U64 by omega, ↓reduceIte]
  rw [readField_eq b (pFh b + 2) 2 (by omega) (by omega)]
  simp only [bind_ok, show leVal (slice b (pFh b + 2) 2) = pNum b from rfl, show pNum b + 1 < U16 from hnum, ↓reduceIte]
  rw [writeField_eq b (pFh b + 2) 2 _ (by omega) (by omega), hb1]
  simp only [bind_ok, show pFh b + 16 < U64 by omega, ↓reduceIte]
  rw [readField_eq b1 (pFh b + 16) 2 (by omega) (by omega), e_os]
  simp only [bind_ok, show pFh b + 20 < U64 by omega, show pFh b + 20 + 32 < U64 by omega, show pFh b + 20 + 36 < U64 by omega, ↓reduceIte]
  rw [readField_eq b1 (pFh b + 20 + 32) 4 (by omega) (by omega), e_sa]
  simp only [bind_ok]
  rw [readField_eq b1 (pFh b + 20 + 36) 4 (by omega) (by omega), e_fa]
  have hH : pFh b + 20 + pOptSize b = pHdrs b := rfl
  rw [hH] at e_va e_vs
  simp only [bind_ok, hH, hen, show pHdrs b < U64 by omega, ↓reduceIte, show pEnd b < U64 by omega]
  rw [align_eq U64 _ _ (by omega) hfa (by omega)]
  have hsub : sub (alignUp (pEnd b) (pFileAlign b)) (pEnd b) = .ok (pGap b) := by
    simp only [sub, hgapv.1, ↓reduceIte]; rfl
  have hsub1 : sub (pNum b) 1 = .ok (pNum b - 1) := by simp only [sub, hnum1, ↓reduceIte]
  simp only [bind_ok]
  rw [hsub]
  simp only [bind_ok]
  rw [hblk]
  simp only [bind_ok, show ¬ name.length > 8 by omega, ↓reduceIte]
  have hz40 : (name ++ zeros (40 - name.length)).length = 40 := by simp [zeros]; omega
  rw [writeField_eq _ 8 4 _ (by rw [hz40]; omega) (by omega)]
  rw [hsub1]
  simp only [bind_ok, ↓reduceIte, mul, show (pNum b - 1) * 40 < U64 by omega, show pHdrs b + (pNum b - 1) * 40 < U64 by omega,
    show pHdrs b + (pNum b - 1) * 40 + 12 < U64 by omega, show pHdrs b + (pNum b - 1) * 40 + 8 < U64 by omega]
  rw [readField_eq b2 _ 4 (by omega) (by omega), e_va]
  simp only [bind_ok]
  rw [readField_eq b2 _ 4 (by omega) (by omega), e_vs]
  simp only [bind_ok, show pPrevVa b + pPrevVs b < U32 by omega, ↓reduceIte]
  have hnv := alignUp_bounds (pPrevVa b + pPrevVs b) (pSecAlign b) hva1 hsa
  rw [align_eq U32 _ _ hva1 hsa (by omega)]
  simp only [bind_ok]
  have hp1 : (patch (name ++ zeros (40 - name.length)) 8 (leBytes 4 1)).length = 40 := by
    rw [length_patch _ _ _ (by rw [hb4, hz40]; omega), hz40]
  rw [writeField_eq _ 12 4 _ (by rw [hp1]; omega) (by omega)]
  simp only [bind_ok, Nat.mod_eq_of_lt (show payload.length < U32 by omega)]
  have hrs := alignUp_bounds payload.length (pFileAlign b) hpl hfa
  rw [align_eq U32 _ _ hpl hfa (by omega)]
  simp only [bind_ok]
  have hp2 : (patch (patch (name ++ zeros (40 - name.length)) 8 (leBytes 4 1)) 12 (leBytes 4 (alignUp (pPrevVa b + pPrevVs b) (pSecAlign b)))).length = 40 := by
    rw [length_patch _ _ _ (by rw [hb4, hp1]; omega), hp1]
  rw [writeField_eq _ 16 4 _ (by rw [hp2]; omega) (by omega)]
  simp only [bind_ok]
  have hp3 : (patch (patch (patch (name ++ zeros (40 - name.length)) 8 (leBytes 4 1)) 12 (leBytes 4 (alignUp (pPrevVa b + pPrevVs b) (pSecAlign b)))) 16
      (leBytes 4 (alignUp payload.length (pFileAlign b)))).length = 40 := by
    rw [length_patch _ _ _ (by rw [hb4, hp2]; omega), hp2]
  rw [writeField_eq _ 36 4 _ (by rw [hp3]; omega) (by omega)]
  simp only [bind_ok]
  rw [show patch (patch (patch (patch (name ++ zeros (40 - name.length)) 8 (leBytes 4 1)) 12 (leBytes 4 (alignUp (pPrevVa b + pPrevVs b) (pSecAlign b)))) 16
      (leBytes 4 (alignUp payload.length (pFileAlign b)))) 36 (leBytes 4 64) = peHdr name (alignUp (pPrevVa b + pPrevVs b) (pSecAlign b)) (alignUp payload.length (pFileAlign b)) from rfl]
  have hroom : pEnd b + 40 ≤ b2.length := by
    rw [hl2]
    by_cases hg : pGap b < 40
    · have hbump : pBump b = alignUp (40 - pGap b) (pFileAlign b) := by unfold pBump; rw [if_pos hg]
      have hbb := alignUp_bounds (40 - pGap b) (pFileAlign b) (by omega) hfa
      omega
    · omega
  generalize hNV : alignUp (pPrevVa b + pPrevVs b) (pSecAlign b) = newVa at *
  generalize hRS : alignUp payload.length (pFileAlign b) = rawSize at *
  have hhl : (peHdr name newVa rawSize).length = 40 := by
    unfold peHdr
    rw [length_patch _ _ _ (by rw [hb4, hp3]; omega), hp3]
  have hpatch : List.take (pEnd b) b2 ++ peHdr name newVa rawSize ++ List.drop (pEnd b + 40) b2 = patch b2 (pEnd b) (peHdr name newVa rawSize) := by
    unfold patch; rw [hhl]
  have hl3 : (patch b2 (pEnd b) (peHdr name newVa rawSize)).length = b.length + pBump b := by
    rw [length_patch _ _ _ (by rw [hhl]; exact hroom), hl2]
  simp only [show pEnd b + 40 < U64 by omega, ↓reduceIte, bind_ok, show ¬ pEnd b + 40 > b2.length by omega, hpatch, hl3]
  have hso := alignUp_bounds (b.length + pBump b) (pFileAlign b) (by omega) hfa
  rw [align_eq U64 _ _ (by omega) hfa (by omega)]
  generalize hSO : alignUp (b.length + pBump b) (pFileAlign b) = newSecOff at *
  simp only [bind_ok, show pEnd b + 20 < U64 by omega, ↓reduceIte, show payload.length ≤ rawSize from hrs.1,
    Nat.mod_eq_of_lt (show newSecOff < U32 by omega)]
  have hl4 : (patch b2 (pEnd b) (peHdr name newVa rawSize) ++ zeros (newSecOff - (b.length + pBump b)) ++
      (payload ++ zeros (rawSize - payload.length))).length = newSecOff + rawSize := by
    simp only [List.length_append, hl3, zeros, List.length_replicate]; omega
  rw [writeField_eq _ (pEnd b + 20) 4 _ (by rw [hl4]; omega) (by omega)]
  simp only [bind_ok, show pFh b + 20 + 56 < U64 by omega, show pFh b + 20 + 60 < U64 by omega, ↓reduceIte, show newVa + 1 < U32 by omega]
  rw [align_eq U32 _ _ (by omega) hsa (by omega)]
  simp only [bind_ok]
  have hl5 : (patch (patch b2 (pEnd b) (peHdr name newVa rawSize) ++ zeros (newSecOff - (b.length + pBump b)) ++
      (payload ++ zeros (rawSize - payload.length))) (pEnd b + 20) (leBytes 4 newSecOff)).length = newSecOff + rawSize := by
    rw [length_patch _ _ _ (by rw [hb4, hl4]; omega), hl4]
  rw [writeField_eq _ (pFh b + 20 + 56) 4 _ (by rw [hl5]; omega) (by omega)]
  simp only [bind_ok]
  have hnh := alignUp_bounds (pEnd b + 40) (pFileAlign b) (by omega) hfa
  rw [align_eq U64 _ _ (by omega) hfa (by omega)]
  simp only [bind_ok, Nat.mod_eq_of_lt (show alignUp (pEnd b + 40) (pFileAlign b) < U32 by omega)]
  rw [writeField_eq _ (pFh b + 20 + 60) 4 _ (by rw [length_patch _ _ _ (by rw [hb4, hl5]; omega), hl5]; omega) (by omega)]
  rfl

end Rj.Exe
