import RjModel.Model.Doer
/-! Lemmas about the file-system model: `get`/`set`, the frame of every operation (what a successful
call may change), and their lift to the doer's command executor. -/
namespace Rj
open FS

theorem lookup_filter_ne {β : Type} (l : List (FPath × β)) (p q : FPath) (h : q ≠ p) :
    (l.filter (fun e => !(e.1 == p))).lookup q = l.lookup q := by
  induction l with
  | nil => rfl
  | cons e rest ih =>
    obtain ⟨k, v⟩ := e
    simp only [List.filter_cons]
    by_cases hk : k = p
    · subst hk
      have : (q == k) = false := by simpa using h
      simp only [beq_self_eq_true, Bool.not_true, Bool.false_eq_true, ↓reduceIte, List.lookup_cons, this, ih]
    · have hkb : (k == p) = false := by simpa using hk
      simp only [hkb, Bool.not_false, ↓reduceIte, List.lookup_cons, ih]

theorem lookup_filter_self {β : Type} (l : List (FPath × β)) (p : FPath) :
    (l.filter (fun e => !(e.1 == p))).lookup p = none := by
  induction l with
  | nil => rfl
  | cons e rest ih =>
    obtain ⟨k, v⟩ := e
    simp only [List.filter_cons]
    by_cases hk : k = p
    · subst hk; simp only [beq_self_eq_true, Bool.not_true, Bool.false_eq_true, ↓reduceIte, ih]
    · have hkb : (k == p) = false := by simpa using hk
      have hpk : (p == k) = false := by simpa using fun e => hk e.symm
      simp only [hkb, Bool.not_false, ↓reduceIte, List.lookup_cons, hpk, ih]

/-- **get after set** (operations never `set` the world root) -/
theorem FS.get_set (fs : FS) (p : FPath) (v : Option Node) (q : FPath) (hp : p ≠ []) :
    (fs.set p v).get q = if q = p then v else fs.get q := by
  unfold FS.get FS.set
  by_cases hq0 : q = []
  · subst hq0
    have : ¬ ([] : FPath) = p := fun e => hp e.symm
    simp [this]
  · simp only [hq0, ↓reduceIte]
    by_cases hqp : q = p
    · subst hqp
      cases v with
      | none => simp [lookup_filter_self]
      | some x => simp [List.lookup]
    · simp only [hqp, ↓reduceIte]
      have hb : (q == p) = false := by simpa using hqp
      cases v with
      | none => simp [lookup_filter_ne _ _ _ hqp]
      | some x => simp [List.lookup, hb, lookup_filter_ne _ _ _ hqp]

theorem FS.get_nil (fs : FS) : fs.get [] = some .folder := by simp [FS.get]

/-- what a successful call may change: nothing but `p` -/
def FrameAt (fs fs' : FS) (p : FPath) : Prop := ∀ q, q ≠ p → fs'.get q = fs.get q

theorem frame_refl (fs : FS) (p : FPath) : FrameAt fs fs p := fun _ _ => rfl

theorem frame_set (fs : FS) (p : FPath) (v : Option Node) (hp : p ≠ []) : FrameAt fs (fs.set p v) p := by
  intro q hq; rw [FS.get_set _ _ _ _ hp]; simp [hq]

theorem withAnc_ok {fs : FS} {p : FPath} {k : OpR FS} {fs' : FS} (h : withAnc fs p k = .ok fs') :
    fs.ancestors p = .ok ∧ k = .ok fs' := by
  unfold withAnc at h
  split at h <;> simp_all

theorem createTrunc_frame {fs fs' : FS} {p : FPath} (h : fs.createTrunc p = .ok fs') : FrameAt fs fs' p := by
  obtain ⟨-, h⟩ := withAnc_ok h
  by_cases hp : p = []
  · subst hp; simp [FS.get_nil] at h
  · split at h <;> simp at h <;> (subst h; exact frame_set _ _ _ hp)

theorem append_frame {fs fs' : FS} {p : FPath} {d : List UInt8} (h : fs.append p d = .ok fs') : FrameAt fs fs' p := by
  unfold FS.append at h
  by_cases hp : p = []
  · subst hp; simp [FS.get_nil] at h
  · split at h <;> simp at h; subst h; exact frame_set _ _ _ hp

theorem setMtime_frame {fs fs' : FS} {p : FPath} {t : Int} (h : fs.setMtime p t = .ok fs') : FrameAt fs fs' p := by
  obtain ⟨-, h⟩ := withAnc_ok h
  by_cases hp : p = []
  · subst hp; simp [FS.get_nil] at h; subst h; exact frame_refl _ _
  · split at h <;> simp at h <;> subst h
    · exact frame_set _ _ _ hp
    · exact frame_refl _ _
    · exact frame_refl _ _

theorem mkdir_frame {fs fs' : FS} {p : FPath} (h : fs.mkdir p = .ok fs') : FrameAt fs fs' p := by
  obtain ⟨-, h⟩ := withAnc_ok h
  by_cases hp : p = []
  · subst hp; simp [FS.get_nil] at h
  · split at h <;> simp at h; subst h; exact frame_set _ _ _ hp

theorem mksymlink_frame {fs fs' : FS} {p : FPath} {t : List UInt8} (h : fs.mksymlink p t = .ok fs') : FrameAt fs fs' p := by
  unfold FS.mksymlink at h
  split at h
  · simp at h
  · obtain ⟨-, h⟩ := withAnc_ok h
    by_cases hp : p = []
    · subst hp; simp [FS.get_nil] at h
    · split at h <;> simp at h; subst h; exact frame_set _ _ _ hp

theorem unlink_frame {fs fs' : FS} {p : FPath} (h : fs.unlink p = .ok fs') : FrameAt fs fs' p := by
  obtain ⟨-, h⟩ := withAnc_ok h
  split at h
  · simp at h
  · split at h
    · simp at h
    · next hp => simp at h; subst h; exact frame_set _ _ _ hp
  · simp at h

theorem rmdir_frame {fs fs' : FS} {p : FPath} (h : fs.rmdir p = .ok fs') : FrameAt fs fs' p := by
  obtain ⟨-, h⟩ := withAnc_ok h
  split at h
  · split at h
    · simp at h
    · next hp =>
      simp at h; subst h
      exact frame_set _ _ _ (by intro e; exact hp (Or.inl e))
  · simp at h

/-- `create_dir_all` only turns missing prefixes of the path into folders -/
theorem mkdirAll_frame (fs fs' : FS) (pre rest : List Comp) (h : mkdirAll fs pre rest = .ok fs') :
    ∀ q, fs'.get q = fs.get q ∨ (fs.get q = none ∧ fs'.get q = some .folder ∧ q <+: pre ++ rest) := by
  induction rest generalizing fs pre with
  | nil => simp only [mkdirAll, OpR.ok.injEq] at h; subst h; intro q; exact Or.inl rfl
  | cons c rest ih =>
    simp only [mkdirAll] at h
    have hpc : pre ++ [c] ≠ [] := by simp
    have happ : pre ++ [c] ++ rest = pre ++ c :: rest := by simp
    split at h
    · intro q; have := ih _ _ h q; rw [happ] at this; exact this
    · next hnone =>
      intro q
      rcases ih _ _ h q with e | ⟨e1, e2, e3⟩
      · rw [FS.get_set _ _ _ _ hpc] at e
        by_cases hq : q = pre ++ [c]
        · subst hq
          simp only [↓reduceIte] at e
          right; refine ⟨hnone, e, ?_⟩
          rw [← happ]; exact List.prefix_append _ _
        · simp only [hq, ↓reduceIte] at e; exact Or.inl e
      · rw [FS.get_set _ _ _ _ hpc] at e1
        by_cases hq : q = pre ++ [c]
        · subst hq; simp at e1
        · simp only [hq, ↓reduceIte] at e1
          right; rw [happ] at e3; exact ⟨e1, e2, e3⟩
    · simp at h
    · simp at h

end Rj
