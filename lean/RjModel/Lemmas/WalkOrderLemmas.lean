import RjModel.Lemmas.ListingLemmas
import RjModel.Model.ParseDoer

namespace Rj
open FS

/-! ### the listing in the order of the real walk (`listBelow`: by depth) also meets the listing assumptions -/

theorem mem_insertByLen {α : Type} (x y : FPath × α) (l : List (FPath × α)) :
    y ∈ insertByLen x l ↔ y = x ∨ y ∈ l := by
  induction l with
  | nil => simp [insertByLen]
  | cons z zs ih =>
    simp only [insertByLen]
    split
    · simp
    · simp only [List.mem_cons, ih]
      constructor
      · rintro (h | h | h)
        · exact Or.inr (Or.inl h)
        · exact Or.inl h
        · exact Or.inr (Or.inr h)
      · rintro (h | h | h)
        · exact Or.inr (Or.inl h)
        · exact Or.inl h
        · exact Or.inr (Or.inr h)

theorem mem_foldr_insertByLen {α : Type} (l : List (FPath × α)) (y : FPath × α) :
    y ∈ l.foldr insertByLen [] ↔ y ∈ l := by
  induction l with
  | nil => simp
  | cons x xs ih => simp [List.foldr_cons, mem_insertByLen, ih]

theorem sorted_insertByLen {α : Type} (x : FPath × α) (l : List (FPath × α))
    (h : l.Pairwise (fun a b => a.1.length ≤ b.1.length)) :
    (insertByLen x l).Pairwise (fun a b => a.1.length ≤ b.1.length) := by
  induction l with
  | nil => simp [insertByLen]
  | cons z zs ih =>
    simp only [insertByLen]
    rw [List.pairwise_cons] at h
    split
    next hle =>
      rw [List.pairwise_cons]
      refine ⟨?_, List.pairwise_cons.mpr h⟩
      intro b hb
      rcases List.mem_cons.mp hb with e | hb'
      · rw [e]; exact hle
      · exact Nat.le_trans hle (h.1 b hb')
    next hgt =>
      rw [List.pairwise_cons]
      refine ⟨?_, ih h.2⟩
      intro b hb
      rcases (mem_insertByLen x b zs).mp hb with e | hb'
      · rw [e]; omega
      · exact h.1 b hb'

theorem sorted_foldr_insertByLen {α : Type} (l : List (FPath × α)) :
    (l.foldr insertByLen []).Pairwise (fun a b => a.1.length ≤ b.1.length) := by
  induction l with
  | nil => simp
  | cons x xs ih => exact sorted_insertByLen x _ ih

theorem nodup_insertByLen {α : Type} (x : FPath × α) (l : List (FPath × α))
    (h : (l.map (·.1)).Nodup) (hx : x.1 ∉ l.map (·.1)) : ((insertByLen x l).map (·.1)).Nodup := by
  induction l with
  | nil => simp [insertByLen]
  | cons z zs ih =>
    simp only [insertByLen]
    split
    · simp only [List.map_cons, List.nodup_cons]
      exact ⟨by simpa using hx, by simpa using h⟩
    · simp only [List.map_cons, List.nodup_cons] at h ⊢
      simp only [List.map_cons, List.mem_cons, not_or] at hx
      refine ⟨?_, ih h.2 hx.2⟩
      intro hm
      obtain ⟨a, ha, e⟩ := List.mem_map.mp hm
      rcases (mem_insertByLen x a zs).mp ha with e1 | h1
      · rw [e1] at e; exact hx.1 e
      · exact h.1 (List.mem_map.mpr ⟨a, h1, e⟩)

/-- **The listing by depth (`listBelow`, the order of the real walk) satisfies the assumptions of `sync_mirror`**: it holds
exactly the entries below the root and lists parents first — so the theorems speak about the objects of the `syncdest` /
`syncprefixes` driver commands as well. -/
theorem destWF_of_listBelow (fs : FS) (hw : fs.Wf) (r : FPath)
    (hroot : fs.get r = some .folder) (hanc : ∀ k, k < r.length → fs.get (r.take k) = some .folder)
    (hclosed : ∀ p, p ≠ [] → fs.get (r ++ p) ≠ none → fs.get (r ++ p.dropLast) = some .folder) :
    DestWF (fun _ => true) fs r (listBelow fs r) := by
  -- membership in the filtered list
  have hmem : ∀ p n, (p, n) ∈ (fs.nodes.filterMap fun e =>
      if r <+: e.1 ∧ e.1 ≠ r then some (e.1.drop r.length, e.2) else none) ↔ (p ≠ [] ∧ fs.get (r ++ p) = some n) := by
    intro p n
    simp only [List.mem_filterMap]
    constructor
    · rintro ⟨e, he, hmap⟩
      split at hmap
      next hc =>
        simp only [Option.some.injEq, Prod.mk.injEq] at hmap
        obtain ⟨⟨t, ht⟩, hne⟩ := hc
        obtain ⟨h1, h2⟩ := hmap
        have hp : p = t := by rw [← h1, ← ht]; simp
        subst hp; subst h2
        have hpne : p ≠ [] := by intro e1; subst e1; simp at ht; exact hne ht.symm
        refine ⟨hpne, ?_⟩
        have hne2 : r ++ p ≠ [] := by simp [hpne]
        simp only [FS.get, hne2, ↓reduceIte]
        rw [ht]
        exact lookup_of_mem_nodup _ _ _ hw he
      next => simp at hmap
    · rintro ⟨hp, hg⟩
      have hne2 : r ++ p ≠ [] := by simp [hp]
      simp only [FS.get, hne2, ↓reduceIte] at hg
      refine ⟨(r ++ p, n), mem_of_lookup _ _ _ hg, ?_⟩
      have hc : r <+: r ++ p ∧ r ++ p ≠ r := ⟨List.prefix_append r p, by intro e; exact hp (by simpa using e)⟩
      simp [hc]
  refine ⟨hroot, hanc, hclosed, ?_, ?_⟩
  · intro p n
    unfold listBelow
    rw [mem_foldr_insertByLen, hmem]
    simp
  · unfold listBelow
    have hs := sorted_foldr_insertByLen (fs.nodes.filterMap fun e =>
      if r <+: e.1 ∧ e.1 ≠ r then some (e.1.drop r.length, e.2) else none)
    -- keys are distinct: two entries with the same relative path are the same node
    have hkeys : ∀ a b, a ∈ (fs.nodes.filterMap fun e =>
        if r <+: e.1 ∧ e.1 ≠ r then some (e.1.drop r.length, e.2) else none).foldr insertByLen [] →
        b ∈ (fs.nodes.filterMap fun e =>
        if r <+: e.1 ∧ e.1 ≠ r then some (e.1.drop r.length, e.2) else none).foldr insertByLen [] → a.1 = b.1 → a = b := by
      intro a b ha hb e
      rw [mem_foldr_insertByLen] at ha hb
      obtain ⟨-, ga⟩ := (hmem a.1 a.2).mp ha
      obtain ⟨-, gb⟩ := (hmem b.1 b.2).mp hb
      rw [e] at ga
      rw [ga] at gb
      exact Prod.ext e (Option.some.inj gb)
    -- sorted by length + pairwise distinct ⇒ nothing later is a prefix of something earlier
    generalize hL : (fs.nodes.filterMap fun e =>
      if r <+: e.1 ∧ e.1 ≠ r then some (e.1.drop r.length, e.2) else none).foldr insertByLen [] = L at hs hkeys
    have hnd : L.Pairwise (fun a b => a ≠ b) := by
      rw [← hL]
      have hwP : fs.nodes.Pairwise (fun a b => a.1 ≠ b.1) := by
        have := hw; unfold FS.Wf List.Nodup at this
        exact List.pairwise_map.mp this
      have hM : (fs.nodes.filterMap fun e =>
          if r <+: e.1 ∧ e.1 ≠ r then some (e.1.drop r.length, e.2) else none).Pairwise (fun a b => a.1 ≠ b.1) := by
        refine List.Pairwise.filterMap _ ?_ hwP
        intro a a' hne b hb b' hb' e
        apply hne
        split at hb
        next hc =>
          split at hb'
          next hc' =>
            simp only [Option.some.injEq] at hb hb'
            subst hb; subst hb'
            simp only at e
            obtain ⟨⟨t1, ht1⟩, -⟩ := hc
            obtain ⟨⟨t2, ht2⟩, -⟩ := hc'
            rw [← ht1, ← ht2] at e ⊢
            simp only [List.drop_left] at e
            rw [e]
          next => simp at hb'
        next => simp at hb
      have hf : ((fs.nodes.filterMap fun e =>
          if r <+: e.1 ∧ e.1 ≠ r then some (e.1.drop r.length, e.2) else none).map (·.1)).Nodup :=
        List.pairwise_map.mpr hM
      have hk : (((fs.nodes.filterMap fun e =>
          if r <+: e.1 ∧ e.1 ≠ r then some (e.1.drop r.length, e.2) else none).foldr insertByLen []).map (·.1)).Nodup := by
        clear hs hkeys hL hM
        generalize (fs.nodes.filterMap fun e =>
            if r <+: e.1 ∧ e.1 ≠ r then some (e.1.drop r.length, e.2) else none) = M at hf ⊢
        induction M with
        | nil => simp
        | cons x xs ih =>
          simp only [List.map_cons, List.nodup_cons] at hf
          simp only [List.foldr_cons]
          apply nodup_insertByLen x _ (ih hf.2)
          intro hm
          obtain ⟨y, hy, ey⟩ := List.mem_map.mp hm
          rw [mem_foldr_insertByLen] at hy
          exact hf.1 (List.mem_map.mpr ⟨y, hy, ey⟩)
      exact List.Pairwise.of_map (·.1) (fun a b h e => h (by rw [e])) hk
    have hboth : L.Pairwise (fun a b => a.1.length ≤ b.1.length ∧ a ≠ b) := by
      exact hs.and hnd
    refine hboth.imp_of_mem ?_
    intro a b ha hb ⟨hle, hne⟩ hpre
    have : b.1 = a.1 := List.IsPrefix.eq_of_length_le hpre hle
    exact hne (hkeys a b ha hb this.symm)

end Rj

namespace Rj
open FS

/-- the representation invariant survives every update -/
theorem Wf_set (fs : FS) (hw : fs.Wf) (p : FPath) (n : Option Node) : (fs.set p n).Wf := by
  unfold FS.Wf FS.set at *
  have hfil : ((fs.nodes.filter fun e => !(e.1 == p)).map (·.1)).Nodup := by
    have : (fs.nodes.filter fun e => !(e.1 == p)).Sublist fs.nodes := List.filter_sublist
    exact List.Nodup.sublist (this.map _) hw
  have hnot : p ∉ (fs.nodes.filter fun e => !(e.1 == p)).map (·.1) := by
    intro h
    obtain ⟨a, ha, e⟩ := List.mem_map.mp h
    have := (List.mem_filter.mp ha).2
    simp [e] at this
  cases n with
  | none => simpa using hfil
  | some x =>
    simp only [List.singleton_append, List.map_cons, List.nodup_cons]
    exact ⟨hnot, hfil⟩

theorem withAnc_ok' {fs : FS} {p : FPath} {k : OpR FS} {fs' : FS} (h : fs.withAnc p k = .ok fs') : k = .ok fs' :=
  (withAnc_ok h).2

/-- every call of the model keeps the invariant -/
theorem Wf_delOp {fs fs' : FS} {r : FPath} {x : FPath × Node} (hw : fs.Wf) (h : delOp fs r x = .ok fs') : fs'.Wf := by
  rw [delOp_ok_eq h]; exact Wf_set fs hw _ _

theorem Wf_runDels {r : FPath} (todo : List (FPath × Node)) (fs fs' : FS) (hw : fs.Wf)
    (h : runOps (fun f x => delOp f r x) fs todo = .ok fs') : fs'.Wf := by
  induction todo generalizing fs with
  | nil => simp only [runOps] at h; cases h; exact hw
  | cons x xs ih =>
    simp only [runOps] at h
    cases hop : delOp fs r x with
    | err => simp [hop, OpR.bind] at h
    | escape => simp [hop, OpR.bind] at h
    | ok fs1 =>
      simp only [hop, OpR.bind] at h
      exact ih fs1 (Wf_delOp hw hop) h

end Rj

namespace Rj
open FS

theorem Wf_mkdir {fs fs' : FS} {p : FPath} (hw : fs.Wf) (h : fs.mkdir p = .ok fs') : fs'.Wf := by
  have := withAnc_ok' h
  split at this
  · cases this; exact Wf_set fs hw _ _
  · cases this

theorem Wf_mksymlink {fs fs' : FS} {p : FPath} {t : List UInt8} (hw : fs.Wf) (h : fs.mksymlink p t = .ok fs') : fs'.Wf := by
  unfold FS.mksymlink at h
  split at h
  · cases h
  · have := withAnc_ok' h
    split at this
    · cases this; exact Wf_set fs hw _ _
    · cases this

theorem Wf_createTrunc {fs fs' : FS} {p : FPath} (hw : fs.Wf) (h : fs.createTrunc p = .ok fs') : fs'.Wf := by
  have := withAnc_ok' h
  split at this <;> first | (cases this; exact Wf_set fs hw _ _) | cases this

theorem Wf_append {fs fs' : FS} {p : FPath} {d : List UInt8} (hw : fs.Wf) (h : fs.append p d = .ok fs') : fs'.Wf := by
  unfold FS.append at h
  split at h
  · cases h; exact Wf_set fs hw _ _
  · cases h

theorem Wf_setMtime {fs fs' : FS} {p : FPath} {t : Int} (hw : fs.Wf) (h : fs.setMtime p t = .ok fs') : fs'.Wf := by
  have := withAnc_ok' h
  split at this <;> first | (cases this; exact Wf_set fs hw _ _) | (cases this; exact hw) | cases this

theorem Wf_cpyOp {fs fs' : FS} {r : FPath} {x : FPath × SEntry} (hw : fs.Wf) (h : cpyOp fs r x = .ok fs') : fs'.Wf := by
  unfold cpyOp at h
  split at h
  · exact Wf_mkdir hw h
  · exact Wf_mksymlink hw h
  · unfold putFile at h
    cases h1 : fs.createTrunc (r ++ x.1) with
    | err => simp [h1, OpR.bind] at h
    | escape => simp [h1, OpR.bind] at h
    | ok f1 =>
      simp only [h1, OpR.bind] at h
      rename_i b m _
      cases h2 : f1.append (r ++ x.1) b with
      | err => simp [h2] at h
      | escape => simp [h2] at h
      | ok f2 =>
        simp only [h2] at h
        exact Wf_setMtime (Wf_append (Wf_createTrunc hw h1) h2) h

theorem Wf_runCpys {r : FPath} (todo : List (FPath × SEntry)) (fs fs' : FS) (hw : fs.Wf)
    (h : runOps (fun f x => cpyOp f r x) fs todo = .ok fs') : fs'.Wf := by
  induction todo generalizing fs with
  | nil => simp only [runOps] at h; cases h; exact hw
  | cons x xs ih =>
    simp only [runOps] at h
    cases hop : cpyOp fs r x with
    | err => simp [hop, OpR.bind] at h
    | escape => simp [hop, OpR.bind] at h
    | ok fs1 =>
      simp only [hop, OpR.bind] at h
      exact ih fs1 (Wf_cpyOp hw hop) h

end Rj
