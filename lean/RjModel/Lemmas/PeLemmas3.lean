import RjModel.Lemmas.PeLemmas2
/-! PE: `read_string` bounds, the new section header, the search loop of `extract_section_from_pe`. -/
namespace Rj.Exe

theorem readStringLoop_le_max (b : Bytes) (off max : Nat) : ∀ (fuel size r : Nat),
    readStringLoop b off max fuel size = .ok r → size < max → r ≤ max := by
  intro fuel
  induction fuel with
  | zero => intro size r h hs; simp [readStringLoop] at h; omega
  | succ k ih =>
    intro size r h hs
    rw [readStringLoop_step] at h
    by_cases hlt : off + size < U64
    · simp only [hlt, ↓reduceIte] at h
      cases hc : b[off + size]? with
      | none => simp [hc] at h
      | some c =>
        simp only [hc] at h
        by_cases hz : c = 0
        · simp only [hz, ↓reduceIte] at h; cases h; omega
        · simp only [hz, ↓reduceIte] at h
          by_cases hm : size + 1 ≥ max
          · simp only [hm, ↓reduceIte] at h; cases h; omega
          · simp only [hm, ↓reduceIte] at h
            exact ih (size + 1) r h (by omega)
    · simp [hlt] at h

/-- a name that fills the whole field (no terminator): `read_string` stops at the field's width -/
theorem readStringLoop_full (b name : Bytes) (off : Nat) (h0 : ∀ c, c ∈ name → c ≠ 0) (hne : 1 ≤ name.length)
    (hU : off + name.length < U64) (hb : ∀ i, i < name.length → b[off + i]? = name[i]?) :
    ∀ fuel size, size < name.length → name.length ≤ size + fuel → readStringLoop b off name.length fuel size = .ok name.length := by
  intro fuel
  induction fuel with
  | zero => intro size h1 h2; omega
  | succ k ih =>
    intro size h1 h2
    rw [readStringLoop_step, if_pos (by omega), hb size h1, List.getElem?_eq_getElem h1]
    simp only
    rw [if_neg (h0 _ (List.getElem_mem h1))]
    by_cases hm : size + 1 ≥ name.length
    · rw [if_pos hm]; congr 1; omega
    · rw [if_neg hm]
      exact ih (size + 1) (by omega) (by omega)

theorem slice_peHdr (name : Bytes) (newVa rawSize : Nat) (hl : name.length ≤ 8) :
    (peHdr name newVa rawSize).length = 40 ∧
    slice (peHdr name newVa rawSize) 0 8 = name ++ zeros (8 - name.length) ∧
    slice (peHdr name newVa rawSize) 16 4 = leBytes 4 rawSize := by
  have hb4 : ∀ v, (leBytes 4 v).length = 4 := fun v => length_leBytes 4 v
  have hz : (name ++ zeros (40 - name.length)).length = 40 := by simp [zeros]; omega
  have w1 : 8 + (leBytes 4 1).length ≤ (name ++ zeros (40 - name.length)).length := by rw [hb4, hz]; omega
  have l1 := length_patch _ 8 (leBytes 4 1) w1
  have w2 : 12 + (leBytes 4 newVa).length ≤ (patch (name ++ zeros (40 - name.length)) 8 (leBytes 4 1)).length := by rw [hb4, l1, hz]; omega
  have l2 := length_patch _ 12 (leBytes 4 newVa) w2
  have w3 : 16 + (leBytes 4 rawSize).length ≤ (patch (patch (name ++ zeros (40 - name.length)) 8 (leBytes 4 1)) 12 (leBytes 4 newVa)).length := by
    rw [hb4, l2, l1, hz]; omega
  have l3 := length_patch _ 16 (leBytes 4 rawSize) w3
  have w4 : 36 + (leBytes 4 0x40).length ≤ (patch (patch (patch (name ++ zeros (40 - name.length)) 8 (leBytes 4 1)) 12 (leBytes 4 newVa)) 16 (leBytes 4 rawSize)).length := by
    rw [hb4, l3, l2, l1, hz]; omega
  have l4 := length_patch _ 36 (leBytes 4 0x40) w4
  unfold peHdr
  refine ⟨by rw [l4, l3, l2, l1, hz], ?_, ?_⟩
  · rw [slice_patch_disjoint _ _ _ _ _ w4 (by left; omega), slice_patch_disjoint _ _ _ _ _ w3 (by left; omega),
        slice_patch_disjoint _ _ _ _ _ w2 (by left; omega), slice_patch_disjoint _ _ _ _ _ w1 (by left; omega)]
    apply List.ext_getElem?
    intro i
    rw [getElem?_slice]
    by_cases hi : i < 8
    · rw [if_pos hi, Nat.zero_add]
      by_cases hn : i < name.length
      · rw [List.getElem?_append_left hn, List.getElem?_append_left hn]
      · rw [List.getElem?_append_right (by omega), List.getElem?_append_right (by omega)]
        simp only [zeros, List.getElem?_replicate]
        rw [if_pos (by omega), if_pos (by omega)]
    · rw [if_neg hi]
      exact (List.getElem?_eq_none (by simp [zeros]; omega)).symm
  · rw [slice_patch_disjoint _ _ _ _ _ w4 (by left; omega)]
    have := slice_patch_same _ _ _ w3
    rwa [hb4] at this

end Rj.Exe

namespace Rj.Exe

theorem extractPeLoop_step (b name : Bytes) (hdrs n idx : Nat) :
    extractPeLoop b name hdrs (n + 1) idx = (do
      let h ← add U64 hdrs (idx * 40)
      let nm ← readString b h 8
      if nm = name then do
        let o1 ← add U64 h 16
        let size ← readField b o1 4
        let o2 ← add U64 h 20
        let ptr ← readField b o2 4
        let (_, x) ← splitOff b ptr
        .ok (some (x.take size))
      else extractPeLoop b name hdrs n (idx + 1)) := rfl

theorem extractPeLoop_found (out name data : Bytes) (hdrs num rawSize ptr : Nat)
    (hskip : ∀ i, i < num → ∃ r, hdrs + i * 40 < U64 ∧ readStringLoop out (hdrs + i * 40) 8 9 0 = .ok r ∧ slice out (hdrs + i * 40) r ≠ name)
    (h1 : hdrs + num * 40 + 24 < U64) (r0 : Nat)
    (h4 : readStringLoop out (hdrs + num * 40) 8 9 0 = .ok r0) (h5 : slice out (hdrs + num * 40) r0 = name)
    (h6 : readField out (hdrs + num * 40 + 16) 4 = .ok rawSize)
    (h7 : readField out (hdrs + num * 40 + 20) 4 = .ok ptr)
    (h8 : ptr ≤ out.length) (h9 : slice out ptr rawSize = data) :
    ∀ d k, k + d = num → extractPeLoop out name hdrs (d + 1) k = .ok (some data) := by
  intro d
  induction d with
  | zero =>
    intro k hk
    have hk : k = num := by omega
    subst hk
    rw [extractPeLoop_step]
    simp only [add, show hdrs + k * 40 < U64 by omega, ↓reduceIte, bind_ok, readString_eq _ _ _ _ h4, h5,
      show hdrs + k * 40 + 16 < U64 by omega, show hdrs + k * 40 + 20 < U64 by omega, h6, h7, splitOff, h8]
    show R.ok (some ((out.drop ptr).take rawSize)) = _
    rw [show (out.drop ptr).take rawSize = slice out ptr rawSize from rfl, h9]
  | succ d ih =>
    intro k hk
    obtain ⟨r, a1, a4, a5⟩ := hskip k (by omega)
    rw [extractPeLoop_step]
    simp only [add, a1, ↓reduceIte, bind_ok, readString_eq _ _ _ _ a4, a5]
    exact ih (k + 1) (by omega)

end Rj.Exe
