import RjModel.Lemmas.ComposeLemmas
import RjModel.Lemmas.PlanLists
/-! Helper lemmas for `C01_boss_lists_are_the_plan`: list congruences, `pathStr` is injective on names, and the
string-level listing looks a path up as the component-level function does. -/
namespace Rj

theorem filterMap_flatMap_eq {α β γ : Type} (l : List α) (f : α → Option β) (g : β → List γ) (P : α → Bool) (h : α → List γ)
    (H : ∀ x ∈ l, (P x = true → ∃ y, f x = some y ∧ g y = h x) ∧ (P x = false → f x = none)) :
    (l.filterMap f).flatMap g = (l.filter P).flatMap h := by
  induction l with
  | nil => rfl
  | cons x xs ih =>
    have hx := H x (by simp)
    have ih' := ih (fun y hy => H y (by simp [hy]))
    cases hp : P x with
    | true =>
      obtain ⟨y, hf, hg⟩ := hx.1 hp
      simp [List.filterMap_cons, hf, List.filter_cons, hp, hg, ih']
    | false =>
      simp [List.filterMap_cons, hx.2 hp, List.filter_cons, hp, ih']

theorem flatMap_single {α β : Type} (f : α → β) (l : List α) : l.flatMap (fun x => [f x]) = l.map f := by
  induction l with
  | nil => rfl
  | cons x xs ih => simp [List.flatMap_cons, ih]

theorem nodup_map_of_inj_on {α β : Type} (f : α → β) : ∀ (l : List α), l.Nodup →
    (∀ a ∈ l, ∀ b ∈ l, f a = f b → a = b) → (l.map f).Nodup := by
  intro l
  induction l with
  | nil => intros; exact List.nodup_nil
  | cons x xs ih =>
    intro hn hinj
    have hn' := List.nodup_cons.mp hn
    rw [List.map_cons, List.nodup_cons]
    refine ⟨?_, ih hn'.2 (fun a ha b hb => hinj a (by simp [ha]) b (by simp [hb]))⟩
    intro hm
    obtain ⟨y, hy, he⟩ := List.mem_map.mp hm
    have := hinj y (by simp [hy]) x (by simp) he
    subst this
    exact hn'.1 hy

theorem pathStr_inj {p q : FPath} (hp : GoodPath p) (hq : GoodPath q) (h : pathStr p = pathStr q) : p = q := by
  have a := relComps_pathStr p hp
  have b := relComps_pathStr q hq
  rw [h, b] at a
  exact (Option.some.inj a).symm

/-- the string-level listing of a component-level one looks a good path up as the component-level function does -/
theorem lookup_listing {V W : Type} (l : List (FPath × V)) (g : V → W) (fn : FPath → Option V)
    (hg : ∀ x ∈ l, GoodPath x.1) (hn : (l.map (·.1)).Nodup)
    (h1 : ∀ x ∈ l, fn x.1 = some x.2) (h2 : ∀ p v, fn p = some v → (p, v) ∈ l)
    (p : FPath) (hp : GoodPath p) :
    lookup (l.map (fun x => (pathStr x.1, g x.2))).reverse (pathStr p) = (fn p).map g := by
  have hnd : (((l.map (fun x => (pathStr x.1, g x.2))).reverse).map (·.1)).Nodup := by
    rw [List.map_reverse]
    apply (List.reverse_perm _).nodup_iff.mpr
    rw [List.map_map]
    have : (l.map ((fun x : String × W => x.1) ∘ fun x => (pathStr x.1, g x.2))) = (l.map (·.1)).map pathStr := by
      simp [List.map_map, Function.comp_def]
    rw [this]
    apply nodup_map_of_inj_on pathStr _ hn
    intro a ha b hb hab
    obtain ⟨x, hx, rfl⟩ := List.mem_map.mp ha
    obtain ⟨y, hy, rfl⟩ := List.mem_map.mp hb
    exact pathStr_inj (hg x hx) (hg y hy) hab
  cases hf : fn p with
  | some v =>
    have hm := h2 p v hf
    simp only [Option.map_some]
    rw [lookup_eq_some_iff _ hnd]
    rw [List.mem_reverse]
    exact List.mem_map.mpr ⟨(p, v), hm, rfl⟩
  | none =>
    simp only [Option.map_none]
    cases hl : lookup (l.map (fun x => (pathStr x.1, g x.2))).reverse (pathStr p) with
    | none => rfl
    | some d =>
      rw [lookup_eq_some_iff _ hnd, List.mem_reverse] at hl
      obtain ⟨x, hx, he⟩ := List.mem_map.mp hl
      simp only [Prod.mk.injEq] at he
      have := pathStr_inj (hg x hx) hp he.1
      rw [← this, h1 x hx] at hf
      cases hf

theorem upToDate_compatible (e : SEntry) (n : Node) (h : upToDate e n = true) : compatible e n = true := by
  cases e <;> cases n <;> simp_all [upToDate, compatible]

end Rj
