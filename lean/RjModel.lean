-- Root of the library: everything that must build.
import RjModel.Model.Parse
import RjModel.Generated.Constants
import RjModel.Props.C13
