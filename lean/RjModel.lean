-- Root of the library: everything that must build.
import RjModel.Model.Parse
import RjModel.Generated.Constants
import RjModel.Props.C02
import RjModel.Props.C03
import RjModel.Props.C05
import RjModel.Props.C06
import RjModel.Props.C07
import RjModel.Props.C08
import RjModel.Props.C09
import RjModel.Props.C10
import RjModel.Props.C11
import RjModel.Props.C13
import RjModel.Props.C14
import RjModel.Props.C15
import RjModel.Props.C16
import RjModel.Props.C18
import RjModel.Model.ParseSettings
