import RjModel.Model.Parse
import RjModel.Generated.Constants
import RjModel.Model.Chunks
import RjModel.Model.Frame
import RjModel.Model.Key
import RjModel.Model.Launch
import RjModel.Model.ParseWire
import RjModel.Model.FileRecv
import RjModel.Model.Exe
import RjModel.Model.ExeValid
import RjModel.Model.Run
import RjModel.Generated.RunSkel
import RjModel.Model.ParseSettings
import RjModel.Generated.Defaults
import RjModel.Model.ParseDoer
open Rj

def chunkCfg? : Option ChunkCfg := do
  let f ← Generated.firstChunk; let g ← Generated.chunkGrowth
  let m ← Generated.maxChunk; let s ← Generated.smallBuf
  pure ⟨f, g, m, s⟩

def linkCfg? : Option LinkCfg := do
  let a ← Generated.sendNonceStep; let b ← Generated.recvNonceStep
  let c ← Generated.bossSendParity; let d ← Generated.bossRecvParity
  let e ← Generated.doerSendParity; let f ← Generated.doerRecvParity
  pure ⟨a, b, c, d, e, f⟩

def parseItem (t : String) : Option Item :=
  match t.toList with
  | ['x'] => some .junk
  | 'f' :: 'b' :: r => (String.ofList r).toNat?.map (Item.frame false)
  | 'f' :: 'd' :: r => (String.ofList r).toNat?.map (Item.frame true)
  | _ => none

def renderLens (l : List (Nat × Bool)) : String :=
  "[" ++ joinWith ";" (l.map fun (n, m) => s!"{n},{if m then 1 else 0}") ++ "]"

def handle (line : String) : String :=
  match tokens line with
  | "l2" :: rest =>
    match P.run P.scenario rest with
    | some sc => (run ⟨Generated.filterWrapPre, Generated.filterWrapPost⟩ sc).render sc.answers.length
    | none => "bad-op"
  | "resolve" :: rest =>
    match P.run (do let c ← P.cli; let d ← P.ydoc; pure (c, d)) rest with
    | some ((cli, dry), doc) =>
      renderResolve (resolveSpec ⟨Generated.fieldRules, Generated.deployDefault, Generated.filtersReplace,
        Generated.deployFlagOverrides⟩ cli doc) dry
    | none => "bad-op"
  | "filt" :: rest =>
    match P.run (do let fs ← P.list P.filterAst; let ps ← P.list P.str; pure (fs, ps)) rest with
    | some (fs, ps) =>
      match fs.mapM (fun (f : Bool × Re) => (wrapOf Generated.filterWrapPre Generated.filterWrapPost f.2).map (fun w => (f.1, w))) with
      | some wfs => "impl=" ++ String.ofList (ps.map fun p => if applyFilters wfs p.toList.toArray then '1' else '0')
      | none => "bad-wrap"
    | none => "bad-op"
  | "frames" :: toDoer :: items =>
    match linkCfg?, items.mapM parseItem with
    | some c, some its =>
      "[" ++ joinWith "," ((recvItems c (toDoer == "1") its 0).map toString) ++ "]"
    | _, _ => "bad-op"
  | ["key", h] =>
    match bytesOfHex h with
    | some bs =>
      let key := bs.map (·.toNat)
      let back := match Key.roundTrip key with
        | some k => hexOfBytes (k.map UInt8.ofNat)
        | none => "err"
      s!"fmt={hexOfString (String.ofList (Key.fmt key))} back={back}"
    | none => "bad-op"
  | ["setup", b, first, second, ans, scp] =>
    let pb : Option DeployBeh := match b with | "p" => some .prompt | "e" => some .error | "k" => some .ok | "f" => some .force | _ => none
    let pl : String → Option LaunchRes := fun
      | "absent" => some .notPresent | "same" => some .success | "other" => some .incompatible | "broken" => some .exited | _ => none
    match pb, pl first, pl second with
    | some b, some f, some s2 =>
      let t := setupComms b f s2 (ans == "1") (scp == "1")
      s!"launches={t.launches} uploads={if t.uploads then 1 else 0} prompted={if t.prompted then 1 else 0} ok={if t.ok then 1 else 0}"
    | _, _, _ => "bad-op"
  | "wire" :: "C" :: rest =>
    match P.run P.wcmd rest with
    | some c => summarizeBytes (Wire.eCmd c)
    | none => "bad-op"
  | "wire" :: "R" :: rest =>
    match P.run P.wresp rest with
    | some c => summarizeBytes (Wire.eResp c)
    | none => "bad-op"
  | "chan" :: cap :: sizes =>
    match cap.toNat?, sizes.mapM String.toNat? with
    | some c, some ms => s!"admitted={admittedCount c ms}"
    | _, _ => "bad-op"
  | "recv" :: pre :: rest =>
    -- recv <pre: - | len> <n> (<len> <more>)* (<fault>)*   fault: n | c | w<k> | t
    let parseFault : String → Option Fault := fun t =>
      match t.toList with
      | ['n'] => some .none | ['c'] => some .create | ['t'] => some .setTime
      | 'w' :: r => (String.ofList r).toNat?.map Fault.write
      | _ => none
    match P.run (do
        let cs ← P.list (do let l ← P.nat; let m ← P.bool; pure (l, m))
        let fs ← P.rep (do P.ofOpt (parseFault (← P.tok))) cs.length
        pure (cs, fs)) rest with
    | some (cs, fs) =>
      -- bytes are abstracted to a running index so that completeness can be read off
      let mk : List (Nat × Bool) → Nat → List Chunk := fun l _ =>
        (l.foldl (fun (acc : List Chunk × Nat) (x : Nat × Bool) =>
          (acc.1 ++ [⟨(List.range x.1).map (fun i => UInt8.ofNat ((acc.2 + i) % 251)), x.2⟩], acc.2 + x.1)) ([], 0)).1
      let chunks := mk cs 0
      let preF : Option FileSt := if pre = "-" then none else some ⟨List.replicate (pre.toNat?.getD 0) 238, .old⟩
      let init : RS := ⟨preF, false, false, 0⟩
      let fin := lastState init (transferStates true init (chunks.zip fs))
      match fin.file with
      | none => "absent"
      | some f =>
        let mt := match f.mt with | .src => "src" | .fresh _ => "fresh" | .old => "old"
        s!"len={f.bytes.length} mt={mt} complete={if f.bytes = fullBytes chunks then 1 else 0}"
    | none => "bad-op"
  | "exe" :: op :: b :: name :: rest =>
    match unxBytes b, unx name with
    | some bytes, some nm =>
      let nameB := nm.toUTF8.toList
      let showB : Exe.R Exe.Bytes → String := fun
        | .ok x => "ok:x" ++ hexOfBytes x | .err => "err" | .panic => "panic"
      let showO : Exe.R (Option Exe.Bytes) → String := fun
        | .ok (some x) => "ok:x" ++ hexOfBytes x | .ok none => "ok:none" | .err => "err" | .panic => "panic"
      match op, rest with
      | "validpe", [p] => match unxBytes p with
        | some pl => if decide (Exe.ValidPe bytes nameB pl) then "valid" else "not-valid"
        | none => "bad-op"
      | "validelf", [] => if decide (Exe.ValidElf bytes nameB) then "valid" else "not-valid"
      | "extelf", [] => showO (Exe.extractElf bytes nameB)
      | "extpe", [] => showO (Exe.extractPe bytes nameB)
      | "addelf", [p] => match unxBytes p with | some pl => showB (Exe.addElf bytes nameB pl) | none => "bad-op"
      | "addpe", [p] => match unxBytes p with | some pl => showB (Exe.addPe bytes nameB pl) | none => "bad-op"
      | _, _ => "bad-op"
    | _, _ => "bad-op"
  | ["runspec", so, d, outs] =>
    -- execute_spec on the skeleton extracted from the source: launches ok? (0/1), outcome of each sync (a string of 0/1, "-" = none)
    let bits := if outs = "-" then [] else outs.toList.map (· == '1')
    if (so = "0" ∨ so = "1") ∧ (d = "0" ∨ d = "1") ∧ (outs = "-" ∨ outs.toList.all (fun c => c == '0' || c == '1')) then
      let r := Run.executeSpec Generated.runSkel (so == "1") (d == "1") bits
      s!"code={r.code} run={r.syncsRun}"
    else "bad-op"
  | ["rpd", s] =>
    match unx s with
    | some str => renderPathDesc (parsePathDesc str)
    | none => "bad-op"
  | "doer" :: rest =>
    match chunkCfg? with
    | some k => runDoerRequest k Generated.filterWrapPre Generated.filterWrapPost rest
    | none => "bad-op"
  | "syncdest" :: rest => runSyncDestRequest rest
  | "syncprefixes" :: rest => runSyncPrefixesRequest rest
  | "synctrees" :: rest => runSyncTreesRequest Generated.filterWrapPre Generated.filterWrapPost rest
  | ["linktext", b] =>
    match unxBytes b with
    | some bytes => s!"read={(readLinkB bytes).render} written=x{hexOfBytes (writeLinkB '/' (readLinkB bytes))}"
    | none => "bad-op"
  | "omap" :: _n :: ops =>
    -- the model of ordered_map.rs on the same op sequence as the real OrderedMap<String, u64>
    let rec go (m : OMap Nat) : List String → Option (OMap Nat)
      | [] => some m
      | "a" :: k :: v :: rest => match v.toNat? with | some v => go (m.add k v) rest | none => none
      | "u" :: k :: v :: rest => match v.toNat? with
        | some v => (match m.update k v with | some m' => go m' rest | none => some ⟨["!panic"], []⟩)
        | none => none
      | "r" :: k :: rest => go (m.remove k) rest
      | "R" :: rest => go m.reverseOrder rest
      | _ => none
    match go OMap.empty ops with
    | some m =>
      if m.vec = ["!panic"] ∧ m.map.isEmpty then "panic"
      else s!"iter=[{joinWith "," (m.iter.map fun e => s!"{e.1}:{e.2}")}] len={(m.iter.map (·.1)).eraseDups.length}"
    | none => "bad-op"
  | ["chunks", len] =>
    match chunkCfg?, len.toNat? with
    | some k, some n => renderLens (readFileLens k n [])
    | _, _ => "bad-op"
  | _ => "bad-op"

partial def loop (h : IO.FS.Stream) (out : IO.FS.Stream) : IO Unit := do
  let line ← h.getLine
  if line.isEmpty then return ()
  out.putStrLn (handle line)
  loop h out

def main : IO Unit := do
  let out ← IO.getStdout
  loop (← IO.getStdin) out
  out.flush
