import RjModel.Model.Parse
import RjModel.Generated.Constants
import RjModel.Model.Chunks
open Rj

def chunkCfg? : Option ChunkCfg := do
  let f ← Generated.firstChunk; let g ← Generated.chunkGrowth
  let m ← Generated.maxChunk; let s ← Generated.smallBuf
  pure ⟨f, g, m, s⟩

def renderLens (l : List (Nat × Bool)) : String :=
  "[" ++ joinWith ";" (l.map fun (n, m) => s!"{n},{if m then 1 else 0}") ++ "]"

def handle (line : String) : String :=
  match tokens line with
  | "l2" :: rest =>
    match P.run P.scenario rest with
    | some sc => (run ⟨Generated.filterWrapPre, Generated.filterWrapPost⟩ sc).render sc.answers.length
    | none => "bad-op"
  | ["chunks", len] =>
    match chunkCfg?, len.toNat? with
    | some k, some n => renderLens (readFileLens k n [])
    | _, _ => "bad-op"
  | _ => "bad-op"

partial def loop (h : IO.FS.Stream) (out : IO.FS.Stream) : IO Unit := do
  let line ← h.getLine
  if line.isEmpty then return ()
  out.putStrLn (handle line)
  loop h out

def main : IO Unit := do
  let out ← IO.getStdout
  loop (← IO.getStdin) out
  out.flush
