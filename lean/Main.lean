import RjModel.Model.Parse
import RjModel.Generated.Constants
open Rj

def handle (line : String) : String :=
  match tokens line with
  | "l2" :: rest =>
    match P.run P.scenario rest with
    | some sc => (run ⟨Generated.filterWrapPre, Generated.filterWrapPost⟩ sc).render sc.answers.length
    | none => "bad-op"
  | _ => "bad-op"

partial def loop (h : IO.FS.Stream) (out : IO.FS.Stream) : IO Unit := do
  let line ← h.getLine
  if line.isEmpty then return ()
  out.putStrLn (handle line)
  loop h out

def main : IO Unit := do
  let out ← IO.getStdout
  loop (← IO.getStdin) out
  out.flush
