import RjModel.Model.Parse
import RjModel.Generated.Constants
import RjModel.Model.Chunks
import RjModel.Model.ParseSettings
import RjModel.Generated.Defaults
open Rj

def chunkCfg? : Option ChunkCfg := do
  let f ← Generated.firstChunk; let g ← Generated.chunkGrowth
  let m ← Generated.maxChunk; let s ← Generated.smallBuf
  pure ⟨f, g, m, s⟩

def renderLens (l : List (Nat × Bool)) : String :=
  "[" ++ joinWith ";" (l.map fun (n, m) => s!"{n},{if m then 1 else 0}") ++ "]"

def handle (line : String) : String :=
  match tokens line with
  | "l2" :: rest =>
    match P.run P.scenario rest with
    | some sc => (run ⟨Generated.filterWrapPre, Generated.filterWrapPost⟩ sc).render sc.answers.length
    | none => "bad-op"
  | "resolve" :: rest =>
    match P.run (do let c ← P.cli; let d ← P.ydoc; pure (c, d)) rest with
    | some ((cli, dry), doc) =>
      renderResolve (resolveSpec ⟨Generated.fieldRules, Generated.deployDefault, Generated.filtersReplace,
        Generated.deployFlagOverrides⟩ cli doc) dry
    | none => "bad-op"
  | "filt" :: rest =>
    match P.run (do let fs ← P.list P.filterAst; let ps ← P.list P.str; pure (fs, ps)) rest with
    | some (fs, ps) =>
      match fs.mapM (fun (f : Bool × Re) => (wrapOf Generated.filterWrapPre Generated.filterWrapPost f.2).map (fun w => (f.1, w))) with
      | some wfs => "impl=" ++ String.ofList (ps.map fun p => if applyFilters wfs p.toList.toArray then '1' else '0')
      | none => "bad-wrap"
    | none => "bad-op"
  | ["rpd", s] =>
    match unx s with
    | some str => renderPathDesc (parsePathDesc str)
    | none => "bad-op"
  | ["chunks", len] =>
    match chunkCfg?, len.toNat? with
    | some k, some n => renderLens (readFileLens k n [])
    | _, _ => "bad-op"
  | _ => "bad-op"

partial def loop (h : IO.FS.Stream) (out : IO.FS.Stream) : IO Unit := do
  let line ← h.getLine
  if line.isEmpty then return ()
  out.putStrLn (handle line)
  loop h out

def main : IO Unit := do
  let out ← IO.getStdout
  loop (← IO.getStdin) out
  out.flush
