//! Token-level helpers of the line protocol (strings are `x<hex of UTF-8>`).
pub fn hex(bytes: &[u8]) -> String {
    let mut s = String::with_capacity(bytes.len() * 2);
    for b in bytes { s.push_str(&format!("{:02x}", b)); }
    s
}
pub fn unhex(s: &str) -> Option<Vec<u8>> {
    if s.len() % 2 != 0 { return None; }
    let b = s.as_bytes();
    let mut out = Vec::with_capacity(s.len() / 2);
    for i in (0..b.len()).step_by(2) {
        let h = (b[i] as char).to_digit(16)?;
        let l = (b[i + 1] as char).to_digit(16)?;
        out.push((h * 16 + l) as u8);
    }
    Some(out)
}
pub fn hexs(s: &str) -> String { hex(s.as_bytes()) }

pub struct Toks<'a> { pub t: &'a [&'a str], pub i: usize }
impl<'a> Toks<'a> {
    pub fn new(t: &'a [&'a str]) -> Self { Toks { t, i: 0 } }
    pub fn tok(&mut self) -> Option<&'a str> { let r = self.t.get(self.i).copied(); self.i += 1; r }
    pub fn nat(&mut self) -> Option<usize> { self.tok()?.parse().ok() }
    pub fn int(&mut self) -> Option<i128> { self.tok()?.parse().ok() }
    pub fn boolean(&mut self) -> Option<bool> { match self.tok()? { "0" => Some(false), "1" => Some(true), _ => None } }
    pub fn bytes(&mut self) -> Option<Vec<u8>> { unhex(self.tok()?.strip_prefix('x')?) }
    pub fn string(&mut self) -> Option<String> { String::from_utf8(self.bytes()?).ok() }
    pub fn opt_nat(&mut self) -> Option<Option<usize>> { let t = self.tok()?; if t == "-" { Some(None) } else { Some(Some(t.parse().ok()?)) } }
    pub fn done(&self) -> bool { self.i == self.t.len() }
}
