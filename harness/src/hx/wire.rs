//! L1 for the wire form (`wire C|R <msg>`: real bincode bytes of a message) and the real
//! memory-bound channel between two threads (`chan ...`).
use std::sync::{Arc, atomic::{AtomicUsize, Ordering}};
use std::time::{Duration, Instant};
use crate::boss_doer_interface::{Command, Response, ProgressMarker, ProgressPhase, Filters, FilterKind};
use crate::memory_bound_channel;
use super::proto::*;
use super::l2::{rrp, parse_kind, parse_target, parse_details, time_of_ns};

fn data_tok(tok: &str) -> Option<Vec<u8>> {
    if let Some(h) = tok.strip_prefix('x') { return unhex(h); }
    let rest = tok.strip_prefix('z')?;
    let (len, b) = rest.split_once(':')?;
    Some(vec![b.parse::<u8>().ok()?; len.parse().ok()?])
}
fn marker(t: &mut Toks) -> Option<ProgressMarker> {
    let work = t.tok()?.parse().ok()?;
    let phase = match t.tok()? {
        "D" => ProgressPhase::Deleting { num_entries_deleted: t.tok()?.parse().ok()? },
        "C" => ProgressPhase::Copying { num_entries_copied: t.tok()?.parse().ok()?, num_bytes_copied: t.tok()?.parse().ok()? },
        "X" => ProgressPhase::Done,
        _ => return None,
    };
    Some(ProgressMarker { completed_work: work, phase })
}
pub fn parse_wire_cmd(t: &mut Toks) -> Option<Command> {
    Some(match t.tok()? {
        "SR" => Command::SetRoot { root: t.string()? },
        "GE" => {
            let n = t.nat()?; let mut pats = vec![]; let mut kinds = vec![];
            for _ in 0..n { kinds.push(match t.tok()? { "+" => FilterKind::Include, "-" => FilterKind::Exclude, _ => return None }); pats.push(t.string()?); }
            Command::GetEntries { filters: Filters { regex_set: regex::RegexSet::new(pats).ok()?, kinds } }
        }
        "CRA" => Command::CreateRootAncestors,
        "GFC" => Command::GetFileContent { path: rrp(&t.string()?) },
        "CUF" => {
            let path = rrp(&t.string()?); let data = data_tok(t.tok()?)?;
            let m = t.tok()?; let set_modified_time = if m == "-" { None } else { Some(time_of_ns(m.parse().ok()?)) };
            Command::CreateOrUpdateFile { path, data, set_modified_time, more_to_follow: t.boolean()? }
        }
        "CS" => Command::CreateSymlink { path: rrp(&t.string()?), kind: parse_kind(t.tok()?)?, target: parse_target(t.tok()?)? },
        "CF" => Command::CreateFolder { path: rrp(&t.string()?) },
        "DF" => Command::DeleteFile { path: rrp(&t.string()?) },
        "DD" => Command::DeleteFolder { path: rrp(&t.string()?) },
        "DS" => Command::DeleteSymlink { path: rrp(&t.string()?), kind: parse_kind(t.tok()?)? },
        "PTS" => Command::ProfilingTimeSync,
        "MK" => Command::Marker(marker(t)?),
        "SH" => Command::Shutdown,
        _ => return None,
    })
}
pub fn parse_wire_resp(t: &mut Toks) -> Option<Response> {
    Some(match t.tok()? {
        "RD" => { let d = t.tok()?; Response::RootDetails { root_details: if d == "-" { None } else { Some(parse_details(d)?) },
            platform_differentiates_symlinks: t.boolean()?, platform_dir_separator: char::from_u32(t.nat()? as u32)? } }
        "EN" => Response::Entry((rrp(&t.string()?), parse_details(t.tok()?)?)),
        "EE" => Response::EndOfEntries,
        "FC" => Response::FileContent { data: data_tok(t.tok()?)?, more_to_follow: t.boolean()? },
        "PT" => Response::ProfilingTimeSync(Duration::new(t.tok()?.parse().ok()?, t.tok()?.parse().ok()?)),
        "MK" => Response::Marker(marker(t)?),
        "ER" => Response::Error(t.string()?),
        _ => return None,
    })
}
fn summarize(bytes: &[u8], size: u64, rt: bool) -> String {
    let head = &bytes[..bytes.len().min(64)];
    let tail = &bytes[bytes.len() - bytes.len().min(16)..];
    format!("len={} head={} tail={} size={} rt={}", bytes.len(), hex(head), hex(tail), size, if rt { 1 } else { 0 })
}
pub fn wire(toks: &[&str]) -> Option<String> {
    let mut t = Toks::new(&toks[1..]);
    match toks[0] {
        "C" => {
            let c = parse_wire_cmd(&mut t)?; if !t.done() { return None; }
            let b = bincode::serialize(&c).ok()?;
            let back: Result<Command, _> = bincode::deserialize(&b);
            // intact: the decoded value is the value that was sent (Debug renders every field), and it re-encodes to the same bytes
            let rt = back.ok().and_then(|x| if format!("{:?}", x) == format!("{:?}", c) { bincode::serialize(&x).ok() } else { None }).map(|b2| b2 == b).unwrap_or(false);
            Some(summarize(&b, bincode::serialized_size(&c).ok()?, rt))
        }
        "R" => {
            let c = parse_wire_resp(&mut t)?; if !t.done() { return None; }
            let b = bincode::serialize(&c).ok()?;
            let back: Result<Response, _> = bincode::deserialize(&b);
            let rt = back.ok().and_then(|x| if format!("{:?}", x) == format!("{:?}", c) { bincode::serialize(&x).ok() } else { None }).map(|b2| b2 == b).unwrap_or(false);
            Some(summarize(&b, bincode::serialized_size(&c).ok()?, rt))
        }
        _ => None,
    }
}

/// `chan <cap> <expect_admitted> <n> <size>*`: one sender thread, the receiver holds back until the
/// sender has stopped making progress; answers how many sends were admitted without any receive,
/// whether everything then arrives in order and intact, and the accounted size after draining.
pub fn chan(toks: &[&str]) -> Option<String> {
    let mut t = Toks::new(toks);
    let cap = t.nat()?; let expect = t.nat()?; let n = t.nat()?;
    let mut sizes = vec![]; for _ in 0..n { let s = t.nat()?; if s < 13 { return None; } sizes.push(s); }
    if !t.done() { return None; }
    let (tx, rx) = memory_bound_channel::new::<Response>(cap);
    let sent = Arc::new(AtomicUsize::new(0));
    let sent2 = sent.clone();
    let sizes2 = sizes.clone();
    let th = std::thread::spawn(move || {
        for (i, s) in sizes2.iter().enumerate() {
            let mut data = vec![(i % 251) as u8; s - 13];
            if let Some(l) = data.last_mut() { *l = 0xA5; }
            if tx.send(Response::FileContent { data, more_to_follow: i % 2 == 0 }).is_err() { break; }
            sent2.fetch_add(1, Ordering::SeqCst);
        }
        tx
    });
    let start = Instant::now();
    while sent.load(Ordering::SeqCst) < expect && start.elapsed() < Duration::from_secs(5) { std::thread::sleep(Duration::from_micros(100)); }
    std::thread::sleep(Duration::from_millis(15));
    let admitted = sent.load(Ordering::SeqCst);
    let mut order_ok = true;
    // (polling with a deadline: a sender that never gets through must not hang the harness; the threads are leaked then)
    let deadline = Instant::now() + Duration::from_secs(12);
    for (i, s) in sizes.iter().enumerate() {
        let got = loop {
            match rx.try_recv() {
                Ok(x) => break Some(x),
                Err(_) => {
                    if Instant::now() > deadline {
                        std::mem::forget(rx); std::mem::forget(th);
                        return Some(format!("admitted={} intact_in_order=0 counter_end=- extra=0 STALLED-after={}-of={}", admitted, i, sizes.len()));
                    }
                    std::thread::sleep(Duration::from_micros(200));
                }
            }
        };
        match got {
            Some(Response::FileContent { data, more_to_follow }) => {
                if data.len() != s - 13 || more_to_follow != (i % 2 == 0) || (data.len() > 1 && data[0] != (i % 251) as u8) || (data.len() > 0 && *data.last().unwrap() != 0xA5) { order_ok = false; }
            }
            _ => { order_ok = false; break; }
        }
    }
    let tx = th.join().ok()?;
    let extra = rx.try_recv().is_ok();
    Some(format!("admitted={} intact_in_order={} counter_end={} extra={}", admitted, if order_ok { 1 } else { 0 }, tx.verif_queued_bytes(), if extra { 1 } else { 0 }))
}

/// `selstress <iterations>`: does `select_ready` ever report a receiver that has nothing to receive?
/// One producer sends a single message to one of two channels and waits until it is consumed.
pub fn selstress(toks: &[&str]) -> Option<String> {
    let n: usize = toks.get(0)?.parse().ok()?;
    let (tx0, rx0) = memory_bound_channel::new::<Response>(1 << 20);
    let (tx1, rx1) = memory_bound_channel::new::<Response>(1 << 20);
    let prod = std::thread::spawn(move || {
        let mut x: u64 = 88172645463325252;
        for _ in 0..n {
            x ^= x << 13; x ^= x >> 7; x ^= x << 17;
            let t = if x & 1 == 0 { &tx0 } else { &tx1 };
            if t.send(Response::EndOfEntries).is_err() { return; }
            let start = Instant::now();
            while tx0.verif_queued_bytes() != 0 || tx1.verif_queued_bytes() != 0 {
                if start.elapsed() > Duration::from_secs(5) { return; }
                std::thread::yield_now();
            }
        }
    });
    let mut spurious = 0usize; let mut got = 0usize;
    let start = Instant::now();
    while got < n && start.elapsed() < Duration::from_secs(120) {
        let idx = memory_bound_channel::select_ready(&rx0, &rx1);
        let r = if idx == 0 { rx0.try_recv() } else { rx1.try_recv() };
        match r { Ok(_) => got += 1, Err(crossbeam::channel::TryRecvError::Empty) => spurious += 1, Err(_) => break }
    }
    let _ = prod.join();
    Some(format!("received={} spurious_ready={}", got, spurious))
}
