//! L3: the real doer (`doer_thread_running_on_boss`) on a real directory; the harness plays the boss.
use std::time::{Duration, Instant};
use crate::boss_doer_interface::{Command, Response, ProgressMarker, ProgressPhase};
use crate::memory_bound_channel;
use super::proto::*;
use super::l2::{rrp, rrp_str, parse_kind, parse_target, render_details, time_of_ns};

/// CRC-32 (zlib), so that the driver can recompute it cheaply on multi-megabyte slices.
pub fn crc32(data: &[u8]) -> u32 {
    let mut c = flate2::Crc::new();
    c.update(data);
    c.sum()
}

pub fn classify_doer_error(e: &str) -> String {
    let table = [
        ("Error opening file", "Open"), ("Error getting file content", "Read"), ("Error writing file contents", "Write"),
        ("Unexpected continued file transfer", "Continued"), ("Error setting modified time", "SetTime"),
        ("Error creating folder and ancestors", "Ancestors"), ("Error creating folder", "CreateFolder"),
        ("Failed to create symlink", "CreateSymlink"), ("Error deleting file", "DeleteFile"),
        ("Error deleting folder", "DeleteFolder"), ("Error deleting symlink", "DeleteSymlink"),
        ("root '", "RootRead"), ("Error fetching entries", "Walk"), ("Unable to get metadata", "Metadata"),
        ("Unknown file type", "UnknownType"), ("Unable to read symlink target", "ReadLink"), ("Unknown modified time", "MTime"),
        ("Can't create symlink of unknown kind", "SymlinkKind"), ("Can't delete symlink of unknown type", "SymlinkKind"),
        ("Not writing file contents", "FailedEarlier"), ("Modified time of", "Pre1970"),
    ];
    for (p, k) in table { if e.starts_with(p) { return k.to_string(); } }
    format!("Other:{}", hexs(e))
}

pub fn render_response(r: &Response) -> String {
    match r {
        Response::RootDetails { root_details, platform_differentiates_symlinks, platform_dir_separator } =>
            format!("RootDetails({},{},{})", match root_details { None => "-".to_string(), Some(d) => render_details(d) },
                if *platform_differentiates_symlinks { 1 } else { 0 }, *platform_dir_separator as u32),
        Response::Entry((p, d)) => format!("Entry({},{})", hexs(&rrp_str(p)), render_details(d)),
        Response::EndOfEntries => "EndOfEntries".to_string(),
        Response::FileContent { data, more_to_follow } => format!("FileContent({},{:08x},{})", data.len(), crc32(data), if *more_to_follow { 1 } else { 0 }),
        Response::ProfilingTimeSync(_) => "ProfilingTimeSync".to_string(),
        Response::ProfilingData(_) => "ProfilingData".to_string(),
        Response::Marker(_) => "Marker".to_string(),
        Response::Error(e) => format!("Error({})", classify_doer_error(e)),
    }
}

fn parse_data(tok: &str) -> Option<Vec<u8>> {
    if let Some(h) = tok.strip_prefix('x') { return unhex(h); }
    if let Some(rest) = tok.strip_prefix('f') {
        // f<hex of host file path>:<offset>:<len>
        let parts: Vec<&str> = rest.split(':').collect();
        if parts.len() != 3 { return None; }
        let path = String::from_utf8(unhex(parts[0])?).ok()?;
        let off: usize = parts[1].parse().ok()?; let len: usize = parts[2].parse().ok()?;
        let all = std::fs::read(path).ok()?;
        return all.get(off..off + len).map(|s| s.to_vec());
    }
    None
}

pub fn parse_cmd(t: &mut Toks) -> Option<Command> {
    Some(match t.tok()? {
        "SR" => Command::SetRoot { root: t.string()? },
        "GE" => {
            let n = t.nat()?; let mut fs = vec![];
            for _ in 0..n { fs.push(t.string()?); }
            Command::GetEntries { filters: crate::boss_sync::verif_compile_filters(&fs).ok()? }
        }
        "CRA" => Command::CreateRootAncestors,
        "GFC" => Command::GetFileContent { path: rrp(&t.string()?) },
        "CUF" => {
            let path = rrp(&t.string()?);
            let data = parse_data(t.tok()?)?;
            let m = t.tok()?;
            let set_modified_time = if m == "-" { None } else { Some(time_of_ns(m.parse().ok()?)) };
            let more_to_follow = t.boolean()?;
            Command::CreateOrUpdateFile { path, data, set_modified_time, more_to_follow }
        }
        "CS" => Command::CreateSymlink { path: rrp(&t.string()?), kind: parse_kind(t.tok()?)?, target: parse_target(t.tok()?)? },
        "CF" => Command::CreateFolder { path: rrp(&t.string()?) },
        "DF" => Command::DeleteFile { path: rrp(&t.string()?) },
        "DD" => Command::DeleteFolder { path: rrp(&t.string()?) },
        "DS" => Command::DeleteSymlink { path: rrp(&t.string()?), kind: parse_kind(t.tok()?)? },
        "MK" => Command::Marker(ProgressMarker { completed_work: 0, phase: ProgressPhase::Copying { num_entries_copied: 0, num_bytes_copied: 0 } }),
        _ => return None,
    })
}

/// `l3 <timeout_ms> <n> <cmd>*` -> `resp=[...]` (+ ` TIMEOUT` / ` DOER-PANIC`)
pub fn run(toks: &[&str]) -> Option<String> {
    let mut t = Toks::new(toks);
    let timeout = Duration::from_millis(t.nat()? as u64);
    let n = t.nat()?;
    let mut cmds = vec![];
    for _ in 0..n { cmds.push(parse_cmd(&mut t)?); }
    if !t.done() { return None; }

    let cap = crate::boss_launch::BOSS_DOER_CHANNEL_MEMORY_CAPACITY;
    let (ctx, crx) = memory_bound_channel::new::<Command>(cap);
    let (rtx, rrx) = memory_bound_channel::new::<Response>(cap);
    let th = std::thread::Builder::new().name("l3 doer".to_string()).spawn(move || crate::doer::doer_thread_running_on_boss(crx, rtx)).unwrap();
    for c in cmds { if ctx.send(c).is_err() { break; } }
    let _ = ctx.send(Command::Marker(ProgressMarker { completed_work: 0, phase: ProgressPhase::Done }));
    let start = Instant::now();
    let mut out = vec![];
    let mut status = "";
    loop {
        match rrx.try_recv() {
            Ok(Response::Marker(m)) if m.phase == ProgressPhase::Done => break,
            Ok(r) => out.push(render_response(&r)),
            Err(crossbeam::channel::TryRecvError::Empty) => {
                if start.elapsed() > timeout { status = " TIMEOUT"; break; }
                std::thread::sleep(Duration::from_micros(200));
            }
            Err(crossbeam::channel::TryRecvError::Disconnected) => { status = " DOER-GONE"; break; }
        }
    }
    let _ = ctx.send(Command::Shutdown);
    if status != " TIMEOUT" {
        if th.join().is_err() { status = " DOER-PANIC"; }
    }
    Some(format!("resp=[{}]{}", out.join(";"), status))
}


/// `walk <root hex> <consumer delay us> <stall after k entries> <stall ms>`: the real `parallel_walk_dir` (worker count from
/// RJRSSYNC_VERIF_WALK_THREADS) with a consumer whose pace is scripted: it sleeps `delay` microseconds before every entry and
/// stalls once, for `stall ms`, after `k` entries (so that the bounded result queue fills while workers go on).
/// Answer: `walk=[<path hex>:<D|F|L|O>;...] end=<ok|err:hex>` in the order the consumer received the entries.
pub fn walk(toks: &[&str]) -> Option<String> {
    use crate::parallel_walk_dir::{parallel_walk_dir, FilterResult};
    let mut t = Toks::new(toks);
    let root = std::path::PathBuf::from(t.string()?);
    let delay = t.nat()? as u64; let stall_after = t.nat()?; let stall_ms = t.nat()? as u64;
    let rx = parallel_walk_dir(&root, |_e| Ok(FilterResult { skip: false, additional_data: () }));
    let mut out = vec![]; let mut end = "ok".to_string(); let mut n = 0usize;
    while let Ok(r) = rx.recv() {
        if delay > 0 { std::thread::sleep(Duration::from_micros(delay)); }
        n += 1;
        if n == stall_after && stall_ms > 0 { std::thread::sleep(Duration::from_millis(stall_ms)); }
        match r {
            Ok(e) => {
                let p = e.dir_entry.path();
                let rel = p.strip_prefix(&root).unwrap_or(&p).to_string_lossy().to_string();
                let k = if e.file_type.is_dir() { "D" } else if e.file_type.is_file() { "F" } else if e.file_type.is_symlink() { "L" } else { "O" };
                out.push(format!("{}:{}", hexs(&rel), k));
            }
            Err(e) => { end = format!("err:{}", hexs(&e)); break; }
        }
    }
    Some(format!("walk=[{}] end={}", out.join(";"), end))
}
