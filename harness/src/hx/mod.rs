//! Verification harness: runs the repository's real code in-process on requests read from stdin
//! (one request per line, one canonical answer per line). See /verif/DESIGN.md §2.3.
use std::io::{BufRead, Write};
use std::process::ExitCode;

pub mod proto;
pub mod l2;
pub mod l3;
pub mod l1;
pub mod mitm;
pub mod wire;

pub fn dispatch() -> Option<ExitCode> {
    let args: Vec<String> = std::env::args().collect();
    if args.len() < 2 || args[1] != "--verif" {
        return None;
    }
    // Panics are caught per case; keep stderr quiet about them.
    std::panic::set_hook(Box::new(|_| {}));
    l2::install_logger();
    let stdin = std::io::stdin();
    for line in stdin.lock().lines() {
        let line = match line { Ok(l) => l, Err(_) => break };
        let toks: Vec<&str> = line.split(' ').filter(|t| !t.is_empty()).collect();
        if toks.is_empty() { continue; }
        let ans = handle(&toks);
        // (stdout is not kept locked while a request is handled: the real code prints prompts from other threads)
        let mut out = std::io::stdout().lock();
        let _ = writeln!(out, "@@ {}", ans);
        let _ = out.flush();
    }
    Some(ExitCode::SUCCESS)
}

fn handle(toks: &[&str]) -> String {
    match toks[0] {
        "l2" => l2::run(&toks[1..]).unwrap_or_else(|| "bad-op".to_string()),
        "l3" => l3::run(&toks[1..]).unwrap_or_else(|| "bad-op".to_string()),
        "yaml" => l1::yaml(&toks[1..]).unwrap_or_else(|| "bad-op".to_string()),
        "resolve" => l1::resolve(&toks[1..]).unwrap_or_else(|| "bad-op".to_string()),
        "mitm" => mitm::run(&toks[1..]).unwrap_or_else(|| "bad-op".to_string()),
        "mkframes" => mitm::mkframes(&toks[1..]).unwrap_or_else(|| "bad-op".to_string()),
        "key" => l1::key(&toks[1..]).unwrap_or_else(|| "bad-op".to_string()),
        "wire" => wire::wire(&toks[1..]).unwrap_or_else(|| "bad-op".to_string()),
        "chan" => wire::chan(&toks[1..]).unwrap_or_else(|| "bad-op".to_string()),
        "selstress" => wire::selstress(&toks[1..]).unwrap_or_else(|| "bad-op".to_string()),
        "exe" => l1::exe(&toks[1..]).unwrap_or_else(|| "bad-op".to_string()),
        "exefile" => l1::exefile(&toks[1..]).unwrap_or_else(|| "bad-op".to_string()),
        "filt" => l1::filt(&toks[1..]).unwrap_or_else(|| "bad-op".to_string()),
        "omap" => l1::omap(&toks[1..]).unwrap_or_else(|| "bad-op".to_string()),
        "linksz" => mitm::linksz(&toks[1..]).unwrap_or_else(|| "bad-op".to_string()),
        "walk" => l3::walk(&toks[1..]).unwrap_or_else(|| "bad-op".to_string()),
        "linkburst" => mitm::linkburst(&toks[1..]).unwrap_or_else(|| "bad-op".to_string()),
        "linkfinal" => mitm::linkfinal(&toks[1..]).unwrap_or_else(|| "bad-op".to_string()),
        "wirenonces" => mitm::wirenonces(&toks[1..]).unwrap_or_else(|| "bad-op".to_string()),
        "rpd" => l1::rpd(&toks[1..]).unwrap_or_else(|| "bad-op".to_string()),
        _ => "bad-op".to_string(),
    }
}
