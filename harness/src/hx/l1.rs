//! L1: pure functions of the repository called in-process.
use yaml_rust::{Yaml, YamlLoader};
use super::proto::*;

fn tag(y: &Yaml) -> &'static str {
    match y { Yaml::Real(_) => "Real", Yaml::Integer(_) => "Integer", Yaml::String(_) => "String", Yaml::Boolean(_) => "Boolean",
        Yaml::Array(_) => "Array", Yaml::Hash(_) => "Hash", Yaml::Alias(_) => "Alias", Yaml::Null => "Null", Yaml::BadValue => "BadValue" }
}
fn scalar(y: &Yaml) -> String { match y { Yaml::String(s) => format!("S x{}", hexs(s)), o => format!("O {}", tag(o)) } }
fn val2(y: &Yaml) -> String {
    match y {
        Yaml::String(s) => format!("S x{}", hexs(s)),
        Yaml::Array(a) => format!("A {} {}", a.len(), a.iter().map(scalar).collect::<Vec<_>>().join(" ")),
        o => format!("O {}", tag(o)),
    }
}
fn item(y: &Yaml) -> String {
    match y {
        Yaml::Hash(h) => format!("H {} {}", h.len(), h.iter().map(|(k, v)| format!("{} {}", scalar(k), val2(v))).collect::<Vec<_>>().join(" ")),
        o => format!("O {}", tag(o)),
    }
}
fn val(y: &Yaml) -> String {
    match y {
        Yaml::String(s) => format!("S x{}", hexs(s)),
        Yaml::Array(a) => format!("A {} {}", a.len(), a.iter().map(item).collect::<Vec<_>>().join(" ")),
        o => format!("O {}", tag(o)),
    }
}
/// `yaml x<text>`: what yaml-rust hands to parse_spec_file, as far as that function looks at it
pub fn yaml(toks: &[&str]) -> Option<String> {
    let mut t = Toks::new(toks);
    let text = t.string()?;
    Some(match YamlLoader::load_from_str(&text) {
        Err(_) => "YE".to_string(),
        Ok(docs) if docs.is_empty() => "YN".to_string(),
        Ok(docs) => match &docs[0] {
            Yaml::Hash(h) => format!("YH {} {}", h.len(), h.iter().map(|(k, v)| format!("{} {}", scalar(k), val(v))).collect::<Vec<_>>().join(" ")),
            _ => "YX".to_string(),
        },
    }.split_whitespace().collect::<Vec<_>>().join(" "))
}

/// `resolve <n> x<arg>*`: the effective spec for an argument vector
pub fn resolve(toks: &[&str]) -> Option<String> {
    let mut t = Toks::new(toks);
    let n = t.nat()?;
    let mut argv = vec!["rjrssync".to_string()];
    for _ in 0..n { argv.push(t.string()?); }
    let r = std::panic::catch_unwind(|| crate::boss_frontend::verif_resolve_args(argv));
    Some(match r {
        Ok(Ok(s)) => format!("ok:{}", s),
        Ok(Err(e)) if e.starts_with("clap:") => "err:clap".to_string(),
        Ok(Err(e)) if e.starts_with("Failed to parse spec file") => "err:specFile".to_string(),
        Ok(Err(e)) => format!("err:other:{}", hexs(&e)),
        Err(_) => "panic".to_string(),
    })
}

/// `rpd x<string>`: RemotePathDesc::from_str
pub fn rpd(toks: &[&str]) -> Option<String> {
    let mut t = Toks::new(toks);
    let s = t.string()?;
    Some(match crate::boss_frontend::verif_parse_remote_path_desc(&s) {
        Ok((u, h, p)) => format!("ok:x{},x{},x{}", hexs(&u), hexs(&h), hexs(&p)),
        Err(_) => "err".to_string(),
    })
}

/// `filt <n> x<filter>* <m> x<path>*`: verdict of the real compile_filters + apply_filters per path,
/// and of an independent oracle (each pattern compiled as `\A(?:p)\z`, fold rule re-implemented here).
pub fn filt(toks: &[&str]) -> Option<String> {
    let mut t = Toks::new(toks);
    let n = t.nat()?; let mut filters = vec![];
    for _ in 0..n { filters.push(t.string()?); }
    let m = t.nat()?; let mut paths = vec![];
    for _ in 0..m { paths.push(t.string()?); }
    if !t.done() { return None; }
    let implv = match std::panic::catch_unwind(|| crate::boss_sync::verif_compile_filters(&filters)) {
        Err(_) => "panic".to_string(),
        Ok(Err(_)) => "err".to_string(),
        Ok(Ok(f)) => paths.iter().map(|p| if crate::doer::verif_apply_filters(&super::l2::rrp(p), &f) { '1' } else { '0' }).collect(),
    };
    // what a remote doer evaluates: the Filters value after its trip over the wire (bincode)
    let remotev = match std::panic::catch_unwind(|| crate::boss_sync::verif_compile_filters(&filters)) {
        Ok(Ok(f)) => match bincode::serialize(&f).ok().and_then(|b| bincode::deserialize::<crate::boss_doer_interface::Filters>(&b).ok()) {
            Some(f2) => paths.iter().map(|p| if crate::doer::verif_apply_filters(&super::l2::rrp(p), &f2) { '1' } else { '0' }).collect(),
            None => "wire-err".to_string(),
        },
        _ => implv.clone(),
    };
    let mut compiled = vec![];
    let mut oracle_ok = true;
    for f in &filters {
        let mut ch = f.chars();
        let sign = match ch.next() { Some('+') => true, Some('-') => false, _ => { oracle_ok = false; break; } };
        match regex::Regex::new(&format!("\\A(?:{})\\z", ch.as_str())) {
            Ok(r) => compiled.push((sign, r)),
            Err(_) => { oracle_ok = false; break; }
        }
    }
    // a pattern must also be a valid regex on its own (e.g. "a)|(b" is not, although "\A(?:a)|(b)\z" is)
    for f in &filters { if f.len() > 0 && regex::Regex::new(&f[1..]).is_err() { oracle_ok = false; } }
    let oracle: String = if !oracle_ok { "err".to_string() } else {
        paths.iter().map(|p| {
            if p.is_empty() { return '1'; }
            let mut verdict = match compiled.first() { Some((true, _)) => false, _ => true };
            for (sign, r) in &compiled { if r.is_match(p) { verdict = *sign; } }
            if verdict { '1' } else { '0' }
        }).collect()
    };
    Some(format!("impl={} oracle={} remote={}", implv, oracle, remotev))
}

/// `key <hex32>`: the two expressions of the key hand-over, as written in boss_launch.rs / doer.rs
pub fn key(toks: &[&str]) -> Option<String> {
    use aes_gcm::{Aes128Gcm, Key};
    let mut t = Toks::new(toks);
    let bytes = unhex(t.tok()?)?;
    if bytes.len() != 16 { return None; }
    let key: Key<Aes128Gcm> = *aes_gcm::aead::generic_array::GenericArray::from_slice(&bytes);
    let msg = format!("{:x}\n", key);                       // boss_launch.rs
    let mut secret = msg.clone(); secret.pop();             // doer.rs: read_line + pop
    let back = match u128::from_str_radix(&secret, 16) { Ok(b) => hex(&b.to_be_bytes()), Err(_) => "err".to_string() };
    Some(format!("fmt={} back={}", hexs(&secret), back))
}

/// `exe <addelf|extelf|addpe|extpe> x<bytes> x<name> [x<payload>]`: the real exe_utils functions under catch_unwind
pub fn exe(toks: &[&str]) -> Option<String> {
    use crate::exe_utils::*;
    let mut t = Toks::new(&toks[1..]);
    let bytes = t.bytes()?;
    let name = t.string()?;
    let payload = if toks[0].starts_with("add") { Some(t.bytes()?) } else { None };
    if !t.done() { return None; }
    let msg = std::sync::Arc::new(std::sync::Mutex::new(String::new()));
    let m2 = msg.clone();
    let prev = std::panic::take_hook();
    std::panic::set_hook(Box::new(move |info| { *m2.lock().unwrap() = format!("{}", info).chars().take(160).collect(); }));
    let op = toks[0].to_string();
    let r = std::panic::catch_unwind(move || -> String {
        match op.as_str() {
            "addelf" => match add_section_to_elf(bytes, &name, payload.unwrap()) { Ok(b) => format!("ok:x{}", hex(&b)), Err(_) => "err".to_string() },
            "addpe" => match add_section_to_pe(bytes, &name, payload.unwrap()) { Ok(b) => format!("ok:x{}", hex(&b)), Err(_) => "err".to_string() },
            "extelf" => match extract_section_from_elf(bytes, &name) { Ok(b) => format!("ok:x{}", hex(&b)), Err(ExtractSectionError::SectionNotFound) => "ok:none".to_string(), Err(_) => "err".to_string() },
            "extpe" => match extract_section_from_pe(bytes, &name) { Ok(b) => format!("ok:x{}", hex(&b)), Err(ExtractSectionError::SectionNotFound) => "ok:none".to_string(), Err(_) => "err".to_string() },
            _ => "bad-op".to_string(),
        }
    });
    std::panic::set_hook(prev);
    Some(match r { Ok(s) => s, Err(_) => format!("panic msg={}", hexs(&msg.lock().unwrap())) })
}

/// `exefile <in> <out> <payload-file> <name>`: add a section to a real executable on disk (ELF)
pub fn exefile(toks: &[&str]) -> Option<String> {
    let mut t = Toks::new(toks);
    let inp = t.string()?; let out = t.string()?; let payload = t.string()?; let name = t.string()?;
    let bytes = std::fs::read(inp).ok()?; let pl = std::fs::read(payload).ok()?;
    let r = std::panic::catch_unwind(|| crate::exe_utils::add_section_to_elf(bytes, &name, pl));
    Some(match r {
        Ok(Ok(b)) => { std::fs::write(&out, &b).ok()?; format!("ok:{}", b.len()) }
        Ok(Err(e)) => format!("err:{}", hexs(&e)),
        Err(_) => "panic".to_string(),
    })
}

/// `omap <n> (a <k> <v> | u <k> <v> | r <k> | R)*`: the real `OrderedMap<String, u64>`; answer `iter=[k:v,...] len=<n>` or `panic`
pub fn omap(toks: &[&str]) -> Option<String> {
    let mut t = Toks::new(toks);
    let n = t.nat()?;
    let mut ops: Vec<(char, String, u64)> = vec![];
    for _ in 0..n {
        match t.tok()? {
            "a" => { let k = t.tok()?.to_string(); let v = t.nat()? as u64; ops.push(('a', k, v)); }
            "u" => { let k = t.tok()?.to_string(); let v = t.nat()? as u64; ops.push(('u', k, v)); }
            "r" => { let k = t.tok()?.to_string(); ops.push(('r', k, 0)); }
            "R" => ops.push(('R', String::new(), 0)),
            _ => return None,
        }
    }
    if !t.done() { return None; }
    let r = std::panic::catch_unwind(move || {
        let mut m: crate::ordered_map::OrderedMap<String, u64> = crate::ordered_map::OrderedMap::new();
        for (op, k, v) in ops {
            match op { 'a' => m.add(k, v), 'u' => m.update(&k, v), 'r' => m.remove(&k), _ => m.reverse_order() }
        }
        let items: Vec<String> = m.iter().map(|(k, v)| format!("{}:{}", k, v)).collect();
        format!("iter=[{}] len={}", items.join(","), m.len())
    });
    Some(r.unwrap_or_else(|_| "panic".to_string()))
}
