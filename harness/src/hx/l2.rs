//! L2: the real `boss_sync::sync()` against scripted doers behind real `Comms::Local` and real
//! memory-bound channels.  The scenario fixes every reply of both doers and the order in which the
//! two listing streams reach the boss (one message at a time, waiting until it has been consumed).
use std::sync::{Arc, Mutex, atomic::{AtomicBool, AtomicUsize, Ordering}};
use std::time::{Duration, SystemTime, UNIX_EPOCH, Instant};

use crate::boss_doer_interface::{Command, Response, EntryDetails, SymlinkKind, SymlinkTarget, ProgressPhase, FilterKind};
use crate::boss_frontend::{SyncSpec, DestFileUpdateBehaviour as FB, DestEntryNeedsDeletingBehaviour as EB, DestRootNeedsDeletingBehaviour as RB};
use crate::boss_launch::Comms;
use crate::memory_bound_channel;
use crate::root_relative_path::RootRelativePath;
use super::proto::*;

// ---------- log capture ----------
static LOG: Mutex<Vec<String>> = Mutex::new(Vec::new());
struct CapLogger;
impl log::Log for CapLogger {
    fn enabled(&self, m: &log::Metadata) -> bool { m.level() <= log::Level::Info }
    fn log(&self, r: &log::Record) {
        if r.level() == log::Level::Info && r.target().ends_with("boss_sync") {
            LOG.lock().unwrap().push(format!("{}", r.args()));
        }
    }
    fn flush(&self) {}
}
pub fn install_logger() {
    let _ = log::set_boxed_logger(Box::new(CapLogger));
    log::set_max_level(log::LevelFilter::Info);
}

// ---------- conversions / rendering ----------
pub fn time_of_ns(ns: i128) -> SystemTime {
    if ns >= 0 {
        UNIX_EPOCH + Duration::new((ns / 1_000_000_000) as u64, (ns % 1_000_000_000) as u32)
    } else {
        let n = -ns;
        UNIX_EPOCH - Duration::new((n / 1_000_000_000) as u64, (n % 1_000_000_000) as u32)
    }
}
pub fn ns_of_time(t: SystemTime) -> i128 {
    match t.duration_since(UNIX_EPOCH) {
        Ok(d) => d.as_nanos() as i128,
        Err(e) => -(e.duration().as_nanos() as i128),
    }
}
pub fn rrp(s: &str) -> RootRelativePath {
    // RootRelativePath's field is private; build it by deserialising (bincode: a struct of one string)
    bincode::deserialize(&bincode::serialize(&s.to_string()).unwrap()).unwrap()
}
pub fn rrp_str(p: &RootRelativePath) -> String {
    bincode::deserialize(&bincode::serialize(p).unwrap()).unwrap()
}
fn kind_s(k: &SymlinkKind) -> &'static str { match k { SymlinkKind::File => "F", SymlinkKind::Folder => "D", SymlinkKind::Unknown => "U" } }
fn target_s(t: &SymlinkTarget) -> String {
    match t { SymlinkTarget::Normalized(s) => format!("N{}", hexs(s)), SymlinkTarget::NotNormalized(b) => format!("X{}", hex(b)) }
}
pub fn parse_kind(s: &str) -> Option<SymlinkKind> { match s { "F" => Some(SymlinkKind::File), "D" => Some(SymlinkKind::Folder), "U" => Some(SymlinkKind::Unknown), _ => None } }
pub fn parse_target(s: &str) -> Option<SymlinkTarget> {
    let body = unhex(&s[1..])?;
    match s.as_bytes().first()? { b'N' => Some(SymlinkTarget::Normalized(String::from_utf8(body).ok()?)), b'X' => Some(SymlinkTarget::NotNormalized(body)), _ => None }
}
pub fn parse_details(s: &str) -> Option<EntryDetails> {
    let parts: Vec<&str> = s.split(':').collect();
    match parts.as_slice() {
        ["D"] => Some(EntryDetails::Folder),
        ["F", m, sz] => Some(EntryDetails::File { modified_time: time_of_ns(m.parse().ok()?), size: sz.parse().ok()? }),
        ["L", k, t] => Some(EntryDetails::Symlink { kind: parse_kind(k)?, target: parse_target(t)? }),
        _ => None,
    }
}
pub fn render_details(d: &EntryDetails) -> String {
    match d {
        EntryDetails::Folder => "D".to_string(),
        EntryDetails::File { modified_time, size } => format!("F:{}:{}", ns_of_time(*modified_time), size),
        EntryDetails::Symlink { kind, target } => format!("L:{}:{}", kind_s(kind), target_s(target)),
    }
}
pub fn render_cmd(c: &Command) -> String {
    match c {
        Command::SetRoot { root } => format!("SetRoot({})", hexs(root)),
        Command::GetEntries { filters } => {
            let pats = filters.regex_set.patterns();
            let items: Vec<String> = pats.iter().zip(filters.kinds.iter()).map(|(p, k)|
                format!("{}{}", match k { FilterKind::Include => "+", FilterKind::Exclude => "-" }, hexs(p))).collect();
            format!("GetEntries({})", items.join(","))
        }
        Command::CreateRootAncestors => "CreateRootAncestors".to_string(),
        Command::GetFileContent { path } => format!("GetFileContent({})", hexs(&rrp_str(path))),
        Command::CreateOrUpdateFile { path, data, set_modified_time, more_to_follow } =>
            format!("CreateOrUpdateFile({},{},{},{})", hexs(&rrp_str(path)), hex(data),
                match set_modified_time { None => "-".to_string(), Some(t) => ns_of_time(*t).to_string() },
                if *more_to_follow { 1 } else { 0 }),
        Command::CreateSymlink { path, kind, target } => format!("CreateSymlink({},{},{})", hexs(&rrp_str(path)), kind_s(kind), target_s(target)),
        Command::CreateFolder { path } => format!("CreateFolder({})", hexs(&rrp_str(path))),
        Command::DeleteFile { path } => format!("DeleteFile({})", hexs(&rrp_str(path))),
        Command::DeleteFolder { path } => format!("DeleteFolder({})", hexs(&rrp_str(path))),
        Command::DeleteSymlink { path, kind } => format!("DeleteSymlink({},{})", hexs(&rrp_str(path)), kind_s(kind)),
        Command::ProfilingTimeSync => "ProfilingTimeSync".to_string(),
        Command::Marker(m) => format!("Marker({})", match m.phase { ProgressPhase::Deleting { .. } => "Deleting", ProgressPhase::Copying { .. } => "Copying", ProgressPhase::Done => "Done" }),
        Command::Shutdown => "Shutdown".to_string(),
    }
}
fn is_mutating(c: &Command) -> bool {
    matches!(c, Command::CreateRootAncestors | Command::CreateOrUpdateFile { .. } | Command::CreateSymlink { .. } | Command::CreateFolder { .. }
        | Command::DeleteFile { .. } | Command::DeleteFolder { .. } | Command::DeleteSymlink { .. })
}
pub fn classify_err(e: &str) -> String {
    let k = if e.starts_with("Invalid filter") { "BadFilter" }
    else if e.starts_with("src path ") && e.ends_with("doesn't exist!") { "SrcMissing" }
    else if e.starts_with("src path ") && e.contains("trailing slash") { "SrcSlash" }
    else if e.starts_with("dest path ") && e.contains("trailing slash") { "DestSlash" }
    else if e.contains("Unexpected response") { "Unexpected" }
    else if e.contains("See --dest-root-needs-deleting") { "RootErr" }
    else if e.contains("See --dest-entry-needs-deleting") { "EntryErr" }
    else if e.contains("See --dest-file-newer") { "NewerErr" }
    else if e.contains("See --dest-file-older") { "OlderErr" }
    else if e.contains("See --files-same-time") { "SameErr" }
    else if e.starts_with("Size of ") { "SizeChanged" }
    else if e.starts_with("Lost communication") { "Lost" }
    else if e.contains("injected-fault") { "Doer" }
    else { return format!("Other:{}", hexs(e)); };
    k.to_string()
}

// ---------- scenario ----------
#[derive(Clone)]
enum RootReply { Details(Option<EntryDetails>, bool, char), Other }
#[derive(Clone)]
enum LEv { Entry(usize, String, EntryDetails), End(usize), Other(usize) }

fn parse_beh(c: char) -> Option<u8> { match c { 'p' => Some(0), 'e' => Some(1), 's' => Some(2), 'o' => Some(3), _ => None } }
fn fb(b: u8) -> FB { [FB::Prompt, FB::Error, FB::Skip, FB::Overwrite][b as usize] }
fn eb(b: u8) -> EB { [EB::Prompt, EB::Error, EB::Skip, EB::Delete][b as usize] }
fn rb(b: u8) -> RB { [RB::Prompt, RB::Error, RB::Skip, RB::Delete][b as usize] }

fn parse_root_reply(t: &mut Toks) -> Option<RootReply> {
    match t.tok()? {
        "O" => Some(RootReply::Other),
        "R" => {
            let d = t.tok()?;
            let d = if d == "-" { None } else { Some(parse_details(d)?) };
            let diff = t.boolean()?;
            let sep = char::from_u32(t.nat()? as u32)?;
            Some(RootReply::Details(d, diff, sep))
        }
        _ => None,
    }
}
fn parse_side(t: &mut Toks) -> Option<usize> { match t.tok()? { "S" => Some(0), "D" => Some(1), _ => None } }

struct Scenario {
    src_root: String, dest_root: String, dry: bool, beh: [u8; 5], filters: Vec<String>,
    replies: [Vec<RootReply>; 2], events: Vec<LEv>,
    files: Vec<(String, Vec<(Vec<u8>, bool)>)>, err_at_cmd: Option<usize>, answers: String,
}

fn parse_scenario(toks: &[&str]) -> Option<Scenario> {
    let mut t = Toks::new(toks);
    let src_root = t.string()?; let dest_root = t.string()?; let dry = t.boolean()?;
    let b: Vec<char> = t.tok()?.chars().collect();
    if b.len() != 5 { return None; }
    let mut beh = [0u8; 5];
    for i in 0..5 { beh[i] = parse_beh(b[i])?; }
    let nf = t.nat()?; let mut filters = vec![];
    for _ in 0..nf { filters.push(t.string()?); }
    let r1 = parse_root_reply(&mut t)?; let r2 = parse_root_reply(&mut t)?; let r3 = parse_root_reply(&mut t)?;
    let ne = t.nat()?; let mut events = vec![];
    for _ in 0..ne {
        events.push(match t.tok()? {
            "E" => { let s = parse_side(&mut t)?; let p = t.string()?; let d = parse_details(t.tok()?)?; LEv::Entry(s, p, d) }
            "Z" => LEv::End(parse_side(&mut t)?),
            "U" => LEv::Other(parse_side(&mut t)?),
            _ => return None,
        });
    }
    let _abstract_answers = t.tok()?;
    let nfiles = t.nat()?; let mut files = vec![];
    for _ in 0..nfiles {
        let p = t.string()?; let nc = t.nat()?; let mut cs = vec![];
        for _ in 0..nc { let d = t.bytes()?; let m = t.boolean()?; cs.push((d, m)); }
        files.push((p, cs));
    }
    let _err_at_poll = t.opt_nat()?;
    let err_at_cmd = t.opt_nat()?;
    let answers = t.string()?;
    if !t.done() { return None; }
    Some(Scenario { src_root, dest_root, dry, beh, filters, replies: [vec![r1], vec![r2, r3]], events, files, err_at_cmd, answers })
}

fn root_reply_response(r: &RootReply) -> Response {
    match r {
        RootReply::Details(d, diff, sep) => Response::RootDetails { root_details: d.clone(), platform_differentiates_symlinks: *diff, platform_dir_separator: *sep },
        RootReply::Other => Response::Error("scripted unexpected reply".to_string()),
    }
}

struct Shared {
    traces: [Mutex<Vec<String>>; 2],
    asked: [AtomicBool; 2],
    done: AtomicBool,
    hang: AtomicBool,
}

fn scripted_doer(side: usize, rx: memory_bound_channel::Receiver<Command>, tx: Arc<memory_bound_channel::Sender<Response>>,
    sh: Arc<Shared>, replies: Vec<RootReply>, files: Vec<(String, Vec<(Vec<u8>, bool)>)>, err_at_cmd: Option<usize>) -> Result<(), String>
{
    let mut set_roots = 0usize;
    let mut mutating_seen = 0usize;
    loop {
        let c = match rx.recv() { Ok(c) => c, Err(_) => return Ok(()) };
        sh.traces[side].lock().unwrap().push(render_cmd(&c));
        match c {
            Command::SetRoot { .. } => {
                let r = replies.get(set_roots).cloned().unwrap_or(RootReply::Other);
                set_roots += 1;
                let _ = tx.send(root_reply_response(&r));
            }
            Command::GetEntries { .. } => { sh.asked[side].store(true, Ordering::SeqCst); }
            Command::GetFileContent { path } => {
                let p = rrp_str(&path);
                match files.iter().find(|(fp, _)| *fp == p) {
                    Some((_, chunks)) => {
                        let mut ended = false;
                        for (d, more) in chunks {
                            let _ = tx.send(Response::FileContent { data: d.clone(), more_to_follow: *more });
                            if !*more { ended = true; break; }
                        }
                        if !ended { let _ = tx.send(Response::Error("script exhausted".to_string())); }
                    }
                    None => { let _ = tx.send(Response::Error("no script for file".to_string())); }
                }
            }
            Command::Marker(m) => { let _ = tx.send(Response::Marker(m)); }
            Command::Shutdown => return Ok(()),
            ref other if is_mutating(other) => {
                if side == 1 && err_at_cmd == Some(mutating_seen) {
                    let _ = tx.send(Response::Error("injected-fault".to_string()));
                }
                mutating_seen += 1;
            }
            _ => {}
        }
    }
}

fn wait_until<F: Fn() -> bool>(f: F, sh: &Shared, limit: Duration) -> bool {
    let start = Instant::now();
    let mut spins = 0u32;
    loop {
        if f() { return true; }
        if sh.done.load(Ordering::SeqCst) { return false; }
        if start.elapsed() > limit { sh.hang.store(true, Ordering::SeqCst); return false; }
        spins += 1;
        if spins < 200 { std::thread::yield_now(); } else { std::thread::sleep(Duration::from_micros(50)); }
    }
}

fn is_folder(r: &RootReply) -> bool { matches!(r, RootReply::Details(Some(EntryDetails::Folder), _, _)) }

pub fn run(toks: &[&str]) -> Option<String> {
    let sc = parse_scenario(toks)?;
    LOG.lock().unwrap().clear();
    crate::boss_frontend::verif_set_prompt_responses(&sc.answers);

    let sh = Arc::new(Shared { traces: [Mutex::new(vec![]), Mutex::new(vec![])], asked: [AtomicBool::new(false), AtomicBool::new(false)],
        done: AtomicBool::new(false), hang: AtomicBool::new(false) });
    let cap = crate::boss_launch::BOSS_DOER_CHANNEL_MEMORY_CAPACITY;
    let mut comms = vec![];
    let mut resp_txs = vec![];
    for side in 0..2 {
        let (ctx, crx) = memory_bound_channel::new::<Command>(cap);
        let (rtx, rrx) = memory_bound_channel::new::<Response>(cap);
        let rtx = Arc::new(rtx);
        resp_txs.push(rtx.clone());
        let sh2 = sh.clone();
        let replies = sc.replies[side].clone();
        let files = sc.files.clone();
        let err_at_cmd = sc.err_at_cmd;
        let thread = std::thread::Builder::new().name(format!("scripted doer {side}"))
            .spawn(move || scripted_doer(side, crx, rtx, sh2, replies, files, err_at_cmd)).unwrap();
        comms.push(Comms::Local { debug_name: format!("scripted {}", if side == 0 { "src" } else { "dest" }), thread, sender: ctx, receiver: rrx });
    }
    let mut dest_comms = comms.pop().unwrap();
    let mut src_comms = comms.pop().unwrap();

    // Which side will be asked for its entries is fixed by the scripted root replies
    // (this only decides which scripted listing messages are delivered at all).
    let src_is_file_or_link = matches!(&sc.replies[0][0], RootReply::Details(Some(EntryDetails::File { .. }), _, _) | RootReply::Details(Some(EntryDetails::Symlink { .. }), _, _));
    let dest_slash = sc.dest_root.ends_with('/') || sc.dest_root.ends_with('\\');
    let will_ask = [is_folder(&sc.replies[0][0]), if src_is_file_or_link && dest_slash { is_folder(&sc.replies[1][1]) } else { is_folder(&sc.replies[1][0]) }];

    // Sequencer: delivers the merged listing one message at a time.
    let seq = {
        let sh = sh.clone();
        let events = sc.events.clone();
        let txs = resp_txs.clone();
        std::thread::spawn(move || {
            for ev in events {
                let side = match &ev { LEv::Entry(s, _, _) | LEv::End(s) | LEv::Other(s) => *s };
                if !will_ask[side] { continue; }
                if !wait_until(|| sh.asked[side].load(Ordering::SeqCst), &sh, Duration::from_secs(10)) { return; }
                let r = match ev {
                    LEv::Entry(_, p, d) => Response::Entry((rrp(&p), d)),
                    LEv::End(_) => Response::EndOfEntries,
                    LEv::Other(_) => Response::Error("scripted unexpected listing message".to_string()),
                };
                if txs[side].send(r).is_err() { return; }
                if !wait_until(|| txs[0].verif_queued_bytes() == 0 && txs[1].verif_queued_bytes() == 0, &sh, Duration::from_secs(10)) { return; }
            }
        })
    };
    drop(resp_txs);

    let spec = SyncSpec {
        src: sc.src_root.clone(), dest: sc.dest_root.clone(), filters: sc.filters.clone(),
        dest_file_newer_behaviour: fb(sc.beh[0]), dest_file_older_behaviour: fb(sc.beh[1]), files_same_time_behaviour: fb(sc.beh[2]),
        dest_entry_needs_deleting_behaviour: eb(sc.beh[3]), dest_root_needs_deleting_behaviour: rb(sc.beh[4]),
    };
    // The boss runs in its own thread under a watchdog: a boss that blocks forever (e.g. waiting for a
    // listing message that never comes) is reported as a hang and the harness process exits, instead of
    // stalling the whole check (the driver restarts the harness for the remaining requests).
    let (done_tx, done_rx) = std::sync::mpsc::channel();
    let dry = sc.dry;
    std::thread::Builder::new().name("boss".to_string()).spawn(move || {
        let bar = indicatif::ProgressBar::hidden();
        let result = {
            let src_ref = &mut src_comms;
            let dest_ref = &mut dest_comms;
            std::panic::catch_unwind(std::panic::AssertUnwindSafe(move || {
                crate::boss_sync::sync(&spec, dry, &bar, false, false, src_ref, dest_ref)
            }))
        };
        let _ = done_tx.send((result, src_comms, dest_comms));
    }).unwrap();
    let (result, src_comms, dest_comms) = match done_rx.recv_timeout(Duration::from_secs(20)) {
        Ok(x) => x,
        Err(_) => {
            println!("@@ res=hang src=[{}] dest=[{}] log=[] HANG", sh.traces[0].lock().unwrap().join(";"), sh.traces[1].lock().unwrap().join(";"));
            std::process::exit(3);
        }
    };
    sh.done.store(true, Ordering::SeqCst);
    let _ = seq.join();
    src_comms.shutdown();
    dest_comms.shutdown();

    let res = match &result {
        Ok(Ok(())) => "ok".to_string(),
        Ok(Err(e)) => format!("err:{}", classify_err(e)),
        Err(_) => "panic".to_string(),
    };
    let mut traces = vec![];
    for side in 0..2 {
        let mut t = sh.traces[side].lock().unwrap().clone();
        if t.last().map(|s| s.as_str()) == Some("Shutdown") { t.pop(); }
        traces.push(t.join(";"));
    }
    let log: Vec<String> = LOG.lock().unwrap().iter().map(|l| hexs(l)).collect();
    let prompts_left = 0; let _ = prompts_left;
    Some(format!("res={} src=[{}] dest=[{}] log=[{}]{}", res, traces[0], traces[1], log.join(";"),
        if sh.hang.load(Ordering::SeqCst) { " HANG" } else { "" }))
}
