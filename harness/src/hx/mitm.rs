//! Two real `AsyncEncryptedComms` ends over loopback TCP with the harness as the network in between.
//! `mitm <key hex32> <nb> <nd> <k1> item* <k2> item*`
//!   nb / nd: number of messages the boss end / the doer end sends (message i carries index i)
//!   first item list: what the network delivers to the doer end, second: to the boss end.
//!   item: `f<b|d><i>` original frame i of that sender, optional `~<bit>` (flip) or `/<n>` (truncate
//!   body to n bytes) or `^<bit>` (flip a bit of the 8-byte length header), or `g<len>:<seed>` (a frame made without the key).
//! Answer: `toDoer=[i,..] toBoss=[i,..] reuse=<0|1>`: indices delivered to each application, and whether
//! two frames of the session provably used one key stream (c_i ^ c_j == p_i ^ p_j).
use std::io::{Read, Write};
use std::net::{TcpListener, TcpStream, Shutdown};
use crate::boss_doer_interface::{Command, Response};
use crate::encrypted_comms::AsyncEncryptedComms;
use aes_gcm::aead::generic_array::GenericArray;
use super::proto::*;
use super::l2::{rrp, rrp_str};

fn pair() -> (TcpStream, TcpStream) {
    let l = TcpListener::bind(("127.0.0.1", 0)).unwrap();
    let a = TcpStream::connect(l.local_addr().unwrap()).unwrap();
    let (b, _) = l.accept().unwrap();
    a.set_nodelay(true).ok(); b.set_nodelay(true).ok();
    (a, b)
}

// `big:<b|d>:<index>:<bytes>`: message <index> of that direction carries a text of <bytes> bytes (a message beyond the frame buffer)
static BIG: std::sync::Mutex<Vec<(u8, usize, usize)>> = std::sync::Mutex::new(Vec::new());
fn big_len(dir: u8, i: usize) -> Option<usize> { BIG.lock().unwrap().iter().find(|x| x.0 == dir && x.1 == i).map(|x| x.2) }
fn cmd(i: usize) -> Command {
    match big_len(b'b', i) {
        Some(n) => Command::SetRoot { root: format!("{}{}", i, "p".repeat(n)) },
        None => Command::DeleteFile { path: rrp(&format!("{}{}", i, "p".repeat(i % 7 * 3))) },
    }
}
fn resp(i: usize) -> Response { Response::Error(format!("{}{}", i, "r".repeat(big_len(b'd', i).unwrap_or(i % 5 * 4)))) }
fn idx_of(s: &str) -> String { s.chars().take_while(|c| c.is_ascii_digit()).collect() }

fn read_frames(s: &mut TcpStream, n: usize) -> Vec<Vec<u8>> {
    let mut out = vec![];
    for _ in 0..n {
        let mut len = [0u8; 8];
        if s.read_exact(&mut len).is_err() { break; }
        let l = usize::from_le_bytes(len);
        let mut body = vec![0u8; l];
        if s.read_exact(&mut body).is_err() { break; }
        out.push(body);
    }
    out
}

/// further items: `z<ms>` = the network stalls for <ms> milliseconds at this point of the stream; `h<announced>:<actual>` = a length header
/// announcing <announced> bytes followed by only <actual> (arbitrary) bytes
fn build(items: &[String], fb: &[Vec<u8>], fd: &[Vec<u8>], stalls: &mut std::collections::HashMap<usize, u64>) -> Option<Vec<u8>> {
    let mut wire = vec![];
    for it in items {
        if let Some(ms) = it.strip_prefix('z') { stalls.insert(wire.len(), ms.parse().ok()?); continue; }
        if let Some(rest) = it.strip_prefix('h') {
            let (ann, act) = rest.split_once(':')?;
            let ann: usize = ann.parse().ok()?; let act: usize = act.parse().ok()?;
            wire.extend_from_slice(&ann.to_le_bytes());
            wire.extend((0..act).map(|i| (i * 31 + 7) as u8));
            continue;
        }
        let mut header_flip: Option<usize> = None;
        let body: Vec<u8> = if let Some(rest) = it.strip_prefix('g') {
            let (len, seed) = rest.split_once(':')?;
            let len: usize = len.parse().ok()?; let mut x: u64 = seed.parse().ok()?;
            (0..len).map(|_| { x = x.wrapping_mul(6364136223846793005).wrapping_add(1442695040888963407); (x >> 33) as u8 }).collect()
        } else {
            let rest = it.strip_prefix('f')?;
            let src = if rest.starts_with('b') { fb } else if rest.starts_with('d') { fd } else { return None };
            let rest = &rest[1..];
            let (i, modif) = match rest.find(|c| c == '~' || c == '/' || c == '^') { Some(p) => (&rest[..p], Some(&rest[p..])), None => (rest, None) };
            let mut b = src.get(i.parse::<usize>().ok()?)?.clone();
            if let Some(m) = modif {
                let n: usize = m[1..].parse().ok()?;
                if m.starts_with('~') { let l = b.len(); b[(n / 8) % l] ^= 1 << (n % 8); }
                else if m.starts_with('^') { header_flip = Some(n % 64); }     // a bit of the 8-byte length header
                else { b.truncate(n); }
            }
            b
        };
        let mut header = body.len().to_le_bytes();
        if let Some(bit) = header_flip { header[bit / 8] ^= 1 << (bit % 8); }
        wire.extend_from_slice(&header);
        wire.extend_from_slice(&body);
    }
    Some(wire)
}

pub fn run(toks: &[&str]) -> Option<String> {
    let mut t = Toks::new(toks);
    let key = unhex(t.tok()?)?;
    if key.len() != 16 { return None; }
    let nb = t.nat()?; let nd = t.nat()?;
    let k1 = t.nat()?; let mut to_doer = vec![]; for _ in 0..k1 { to_doer.push(t.tok()?.to_string()); }
    let k2 = t.nat()?; let mut to_boss = vec![]; for _ in 0..k2 { to_boss.push(t.tok()?.to_string()); }
    // optional: `cd:<off,off,..>` / `cb:<off,..>` = byte offsets of the stream to the doer / to the boss at which the
    // network pauses (TCP segment boundaries anywhere, also inside the 8-byte length header)
    // `pd:<off>:<ms>` / `pb:<off>:<ms>`: the network delivers nothing for <ms> milliseconds once <off> bytes of that stream are through
    // (a stall in the middle of a frame, after a frame, ...)
    let mut cuts: [Vec<usize>; 2] = [vec![], vec![]];
    let mut pauses: [std::collections::HashMap<usize, u64>; 2] = [Default::default(), Default::default()];
    BIG.lock().unwrap().clear();
    while let Some(tok) = t.tok() {
        if let Some(l) = tok.strip_prefix("big:") {
            let mut it = l.split(':');
            let dir = it.next()?.bytes().next()?; let idx: usize = it.next()?.parse().ok()?; let n: usize = it.next()?.parse().ok()?;
            BIG.lock().unwrap().push((dir, idx, n));
            continue;
        }
        if let Some(l) = tok.strip_prefix("pd:").map(|l| (0, l)).or(tok.strip_prefix("pb:").map(|l| (1, l))) {
            let mut it = l.1.split(':');
            let off: usize = it.next()?.parse().ok()?; let ms: u64 = it.next()?.parse().ok()?;
            pauses[l.0].insert(off, ms); cuts[l.0].push(off);
            cuts[l.0].sort(); cuts[l.0].dedup();
            continue;
        }
        let (which, list) = if let Some(l) = tok.strip_prefix("cd:") { (0, l) } else if let Some(l) = tok.strip_prefix("cb:") { (1, l) } else { return None };
        for o in list.split(',').filter(|x| !x.is_empty()) { cuts[which].push(o.parse().ok()?); }
        cuts[which].sort(); cuts[which].dedup();
    }

    let (boss_end, mut net_b) = pair();
    let (doer_end, mut net_d) = pair();
    let key = *GenericArray::from_slice(&key);
    let boss: AsyncEncryptedComms<Command, Response> = AsyncEncryptedComms::new(boss_end, key, 0, 1, ("boss", "doer"));
    let doer: AsyncEncryptedComms<Response, Command> = AsyncEncryptedComms::new(doer_end, key, 1, 0, ("doer", "boss"));
    for i in 0..nb { let _ = boss.sender.send(cmd(i)); }
    for i in 0..nd { let _ = doer.sender.send(resp(i)); }
    // (the harness's own ends of the two sockets: a sending thread that died on a message - e.g. one beyond its frame buffer - leaves its
    // socket open, so the wait for its frames is bounded)
    let has_big = !BIG.lock().unwrap().is_empty();
    if has_big { net_b.set_read_timeout(Some(std::time::Duration::from_millis(1500))).ok(); net_d.set_read_timeout(Some(std::time::Duration::from_millis(1500))).ok(); }
    let fb = read_frames(&mut net_b, nb);
    let fd = read_frames(&mut net_d, nd);
    net_b.set_read_timeout(None).ok(); net_d.set_read_timeout(None).ok();
    if fb.len() != nb || fd.len() != nd { return Some("send-failed".to_string()); }

    // nonce reuse is visible on the wire: equal key streams <=> c_i ^ c_j == p_i ^ p_j
    // (hashed on the first 8 bytes of c ^ p, so that sessions of 100 000 frames can be examined: counters that wrap or
    // fail to carry only repeat after 2^7, 2^8, 2^15, 2^16 frames)
    let mut reuse = false;
    let mut seen: std::collections::HashMap<[u8; 8], usize> = std::collections::HashMap::new();
    let plains: Vec<(Vec<u8>, &Vec<u8>)> = (0..nb).map(|i| (bincode::serialize(&cmd(i)).unwrap(), &fb[i]))
        .chain((0..nd).map(|i| (bincode::serialize(&resp(i)).unwrap(), &fd[i]))).collect();
    for i in 0..plains.len() {
        let n = plains[i].0.len().min(plains[i].1.len());
        if n < 8 { continue; }
        let mut ks = [0u8; 8];
        for k in 0..8 { ks[k] = plains[i].1[k] ^ plains[i].0[k]; }
        if let Some(&j) = seen.get(&ks) {
            let m = n.min(plains[j].0.len()).min(plains[j].1.len());
            if (0..m).all(|k| plains[i].1[k] ^ plains[j].1[k] == plains[i].0[k] ^ plains[j].0[k]) { reuse = true; }
        } else { seen.insert(ks, i); }
    }

    let wd = build(&to_doer, &fb, &fd, &mut pauses[0])?;
    let wb = build(&to_boss, &fb, &fd, &mut pauses[1])?;
    for w in 0..2 { let ks: Vec<usize> = pauses[w].keys().cloned().collect(); cuts[w].extend(ks); cuts[w].sort(); cuts[w].dedup(); }
    fn deliver(s: &mut TcpStream, wire: &[u8], cuts: &[usize], pauses: &std::collections::HashMap<usize, u64>) {
        let mut pos = 0;
        for &c in cuts.iter().filter(|&&c| c > 0 && c < wire.len()) {
            let _ = s.write_all(&wire[pos..c]); let _ = s.flush(); pos = c;
            std::thread::sleep(std::time::Duration::from_millis(*pauses.get(&c).unwrap_or(&4)));
        }
        let _ = s.write_all(&wire[pos..]); let _ = s.flush(); let _ = s.shutdown(Shutdown::Write);
    }
    // (the two directions are delivered concurrently, so that a stall in one does not hold back the other)
    let (c0, c1, p0, p1) = (cuts[0].clone(), cuts[1].clone(), pauses[0].clone(), pauses[1].clone());
    let td = std::thread::spawn(move || { deliver(&mut net_d, &wd, &c0, &p0); net_d });
    deliver(&mut net_b, &wb, &c1, &p1);
    let net_d = td.join().ok()?;
    let _ = &net_d;

    let mut got_d = vec![];
    while let Ok(c) = doer.receiver.recv() {
        got_d.push(match c { Command::DeleteFile { path } => idx_of(&rrp_str(&path)), Command::SetRoot { root } => idx_of(&root), other => format!("?{:?}", other) });
    }
    let mut got_b = vec![];
    while let Ok(r) = boss.receiver.recv() {
        got_b.push(match r { Response::Error(e) => idx_of(&e), other => format!("?{:?}", other) });
    }
    drop(boss); drop(doer);
    Some(format!("toDoer=[{}] toBoss=[{}] reuse={}", got_d.join(","), got_b.join(","), if reuse { 1 } else { 0 }))
}

/// `mkframes <key hex32> <n> <cmd>*` (commands in the l3 syntax): the frames a boss holding that key
/// would put on the wire, produced by the real sending thread.  Answer: hex of the byte stream.
pub fn mkframes(toks: &[&str]) -> Option<String> {
    let mut t = Toks::new(toks);
    let key = unhex(t.tok()?)?;
    if key.len() != 16 { return None; }
    let n = t.nat()?;
    let mut cmds = vec![];
    for _ in 0..n { cmds.push(super::l3::parse_cmd(&mut t)?); }
    if !t.done() { return None; }
    let (boss_end, mut net) = pair();
    let key = *GenericArray::from_slice(&key);
    let boss: AsyncEncryptedComms<Command, Response> = AsyncEncryptedComms::new(boss_end, key, 0, 1, ("boss", "doer"));
    for c in cmds { let _ = boss.sender.send(c); }
    let frames = read_frames(&mut net, n);
    let mut wire = vec![];
    for f in frames { wire.extend_from_slice(&f.len().to_le_bytes()); wire.extend_from_slice(&f); }
    drop(boss);
    Some(hex(&wire))
}

fn pattern(size: usize, i: usize) -> Vec<u8> { (0..size).map(|j| (i.wrapping_mul(31) ^ j.wrapping_mul(7) ^ (j >> 8)) as u8).collect() }

/// `linksz <key hex32> <timeout_ms> <n> <size>*`: an honest link (the two real ends connected directly). The boss end
/// sends n `CreateOrUpdateFile` commands and the doer end n `FileContent` responses whose payloads have the given
/// sizes (deterministic bytes). Answer: `toDoer=<delivered intact in order> toBoss=<...> of=<n>`.
pub fn linksz(toks: &[&str]) -> Option<String> {
    let mut t = Toks::new(toks);
    let key = unhex(t.tok()?)?;
    if key.len() != 16 { return None; }
    let timeout = std::time::Duration::from_millis(t.nat()? as u64);
    let n = t.nat()?; let mut sizes = vec![]; for _ in 0..n { sizes.push(t.nat()?); }
    if !t.done() { return None; }
    let (boss_end, doer_end) = pair();
    let key = *GenericArray::from_slice(&key);
    let boss: AsyncEncryptedComms<Command, Response> = AsyncEncryptedComms::new(boss_end, key, 0, 1, ("boss", "doer"));
    let doer: AsyncEncryptedComms<Response, Command> = AsyncEncryptedComms::new(doer_end, key, 1, 0, ("doer", "boss"));
    let start = std::time::Instant::now();
    let (mut ok_d, mut ok_b) = (0usize, 0usize);
    let (mut alive_d, mut alive_b) = (true, true);
    // one message in flight per direction at a time keeps memory small; the timeout covers a link that died
    for (i, &sz) in sizes.iter().enumerate() {
        // the path that travels next to the data: short, and as long as a relative path can be (components of 200 bytes)
        let plen = [1usize, 300, 1200, 4000][i % 4];
        let long_path: String = (0..plen).map(|j| if j % 201 == 200 { '/' } else { (b'a' + ((i + j) % 26) as u8) as char }).collect();
        if alive_d { let _ = boss.sender.send(Command::CreateOrUpdateFile { path: rrp(&long_path), data: pattern(sz, i), set_modified_time: None, more_to_follow: i % 2 == 0 }); }
        if alive_b { let _ = doer.sender.send(Response::FileContent { data: pattern(sz, i + 1000), more_to_follow: i % 2 == 1 }); }
        let (mut got_d, mut got_b) = (!alive_d, !alive_b);
        while !(got_d && got_b) {
            if !got_d { match doer.receiver.try_recv() {
                Ok(Command::CreateOrUpdateFile { path, data, more_to_follow, .. }) => { got_d = true; if data == pattern(sz, i) && rrp_str(&path) == long_path && more_to_follow == (i % 2 == 0) && ok_d == i { ok_d += 1; } else { alive_d = false; } }
                Ok(_) => { got_d = true; alive_d = false; }
                Err(crossbeam::channel::TryRecvError::Disconnected) => { got_d = true; alive_d = false; }
                Err(_) => {} } }
            if !got_b { match boss.receiver.try_recv() {
                Ok(Response::FileContent { data, more_to_follow }) => { got_b = true; if data == pattern(sz, i + 1000) && more_to_follow == (i % 2 == 1) && ok_b == i { ok_b += 1; } else { alive_b = false; } }
                Ok(_) => { got_b = true; alive_b = false; }
                Err(crossbeam::channel::TryRecvError::Disconnected) => { got_b = true; alive_b = false; }
                Err(_) => {} } }
            if start.elapsed() > timeout { alive_d = false; alive_b = false; break; }
            if !(got_d && got_b) { std::thread::sleep(std::time::Duration::from_micros(100)); }
        }
        if !alive_d && !alive_b { break; }
    }
    // (the ends are leaked on purpose if a thread of theirs died: dropping would join it)
    if ok_d == n && ok_b == n { drop(boss); drop(doer); } else { std::mem::forget(boss); std::mem::forget(doer); }
    Some(format!("toDoer={} toBoss={} of={}", ok_d, ok_b, n))
}


/// `linkburst <key hex32> <timeout_ms> <n> <size>*`: like `linksz`, but the boss end queues *all* its messages at once (a sending
/// thread that lags behind finds several messages waiting: whatever it does with a backlog - batching, coalescing - is exercised),
/// the paths of different lengths; then the doer end receives.  Answer: `toDoer=<delivered intact in order> of=<n>`.
pub fn linkburst(toks: &[&str]) -> Option<String> {
    let mut t = Toks::new(toks);
    let key = unhex(t.tok()?)?;
    if key.len() != 16 { return None; }
    let timeout = std::time::Duration::from_millis(t.nat()? as u64);
    let n = t.nat()?; let mut sizes = vec![]; for _ in 0..n { sizes.push(t.nat()?); }
    if !t.done() { return None; }
    let (boss_end, doer_end) = pair();
    let key = *GenericArray::from_slice(&key);
    let boss: AsyncEncryptedComms<Command, Response> = AsyncEncryptedComms::new(boss_end, key, 0, 1, ("boss", "doer"));
    let doer: AsyncEncryptedComms<Response, Command> = AsyncEncryptedComms::new(doer_end, key, 1, 0, ("doer", "boss"));
    let name = |i: usize| -> String { "f".repeat(1 + (i * 7) % 40) };
    for (i, &sz) in sizes.iter().enumerate() {
        let _ = boss.sender.send(Command::CreateOrUpdateFile { path: rrp(&name(i)), data: pattern(sz, i), set_modified_time: None, more_to_follow: i % 2 == 0 });
    }
    let start = std::time::Instant::now();
    let mut ok = 0usize;
    while ok < n {
        match doer.receiver.try_recv() {
            Ok(Command::CreateOrUpdateFile { path, data, more_to_follow, .. }) => {
                if data == pattern(sizes[ok], ok) && more_to_follow == (ok % 2 == 0) && rrp_str(&path) == name(ok) { ok += 1; } else { break; }
            }
            Ok(_) => break,
            Err(crossbeam::channel::TryRecvError::Disconnected) => break,
            Err(_) => { if start.elapsed() > timeout { break; } std::thread::sleep(std::time::Duration::from_micros(200)); }
        }
    }
    if ok == n { drop(boss); drop(doer); } else { std::mem::forget(boss); std::mem::forget(doer); }
    Some(format!("toDoer={} of={}", ok, n))
}

/// `linkfinal <key hex32> <n> <size>`: the doer end of a real link has n responses of <size> bytes queued when the boss's `Shutdown`
/// arrives and it shuts down with a final message (the way a doer process ends: `shutdown_with_final_message_sent_after_threads_joined`);
/// the network reads slowly, so the sending thread has a backlog when its channel closes.  Every frame the doer put on the wire
/// (the n responses and the final one) must have its own nonce.  Answer: `frames=<k> of=<n+1> reuse=<0|1>`.
pub fn linkfinal(toks: &[&str]) -> Option<String> {
    let mut t = Toks::new(toks);
    let key = unhex(t.tok()?)?;
    if key.len() != 16 { return None; }
    let n = t.nat()?; let size = t.nat()?;
    let key = *GenericArray::from_slice(&key);
    // the boss's Shutdown frame, made by a real boss end
    let (boss_end, mut net_b) = pair();
    let boss: AsyncEncryptedComms<Command, Response> = AsyncEncryptedComms::new(boss_end, key, 0, 1, ("boss", "doer"));
    let _ = boss.sender.send(Command::Shutdown);
    let fb = read_frames(&mut net_b, 1);
    if fb.len() != 1 { return Some("send-failed".to_string()); }
    let (doer_end, mut net_d) = pair();
    let doer: AsyncEncryptedComms<Response, Command> = AsyncEncryptedComms::new(doer_end, key, 1, 0, ("doer", "boss"));
    let msg = |i: usize| Response::Error(format!("{}{}", i, "r".repeat(size + i % 3)));
    let fin = || Response::Error("final message".repeat(3));
    for i in 0..n { let _ = doer.sender.send(msg(i)); }
    // deliver the Shutdown, then let the doer end shut down while the network is still not reading
    let mut w = vec![]; w.extend_from_slice(&fb[0].len().to_le_bytes()); w.extend_from_slice(&fb[0]);
    let _ = net_d.write_all(&w); let _ = net_d.flush();
    let th = std::thread::spawn(move || { doer.shutdown_with_final_message_sent_after_threads_joined(fin); });
    std::thread::sleep(std::time::Duration::from_millis(250));
    net_d.set_read_timeout(Some(std::time::Duration::from_secs(5))).ok();
    let fd = read_frames(&mut net_d, n + 1);
    let _ = th.join();
    drop(boss);
    let mut plains: Vec<Vec<u8>> = (0..n).map(|i| bincode::serialize(&msg(i)).unwrap()).collect();
    plains.push(bincode::serialize(&fin()).unwrap());
    let mut reuse = false;
    for i in 0..fd.len() {
        for j in 0..i {
            let m = plains[i].len().min(plains[j].len()).min(fd[i].len()).min(fd[j].len()).min(24);
            if m >= 8 && (0..m).all(|k| fd[i][k] ^ fd[j][k] == plains[i][k] ^ plains[j][k]) { reuse = true; }
        }
    }
    Some(format!("frames={} of={} reuse={}", fd.len(), n + 1, if reuse { 1 } else { 0 }))
}


/// `wirenonces <key hex> <file>...`: each file holds the bytes one direction of a recorded link carried (8-byte little-endian length + AES-GCM
/// ciphertext per frame).  For every frame: the smallest nonce counter (12 bytes, the counter in the first 8, little-endian) under which it
/// authenticates with the key, or -1.  Output: one comma-separated list per file, joined by `|`.
pub fn wirenonces(toks: &[&str]) -> Option<String> {
    use aes_gcm::{Aes128Gcm, KeyInit, aead::Aead};
    let mut t = Toks::new(toks);
    let key = unhex(t.tok()?)?;
    if key.len() != 16 { return None; }
    let cipher = Aes128Gcm::new(GenericArray::from_slice(&key));
    let mut files = vec![];
    while !t.done() { files.push(t.string()?); }
    let mut streams: Vec<Vec<Vec<u8>>> = vec![];
    for f in &files {
        let bytes = std::fs::read(f).ok()?;
        let (mut i, mut frames) = (0usize, vec![]);
        while i + 8 <= bytes.len() {
            let l = u64::from_le_bytes(bytes[i..i + 8].try_into().unwrap()) as usize;
            if i + 8 + l > bytes.len() { break; }
            frames.push(bytes[i + 8..i + 8 + l].to_vec()); i += 8 + l;
        }
        streams.push(frames);
    }
    let total: usize = streams.iter().map(|s| s.len()).sum();
    let out: Vec<String> = streams.iter().map(|frames| frames.iter().map(|fr| {
        let mut found: i64 = -1;
        for n in 0..(2 * total as u64 + 16) {
            let mut nb = [0u8; 12]; nb[0..8].copy_from_slice(&n.to_le_bytes());
            if cipher.decrypt(GenericArray::from_slice(&nb), fr.as_slice()).is_ok() { found = n as i64; break; }
        }
        found.to_string()
    }).collect::<Vec<_>>().join(",")).collect();
    Some(out.join("|"))
}
