"""A small Rust -> Lean translator for the two pure decision functions of boss_sync.rs (`needs_delete`, `needs_copy`).
The subset: `match` on an identifier or on `a.cmp(&b)`, struct / unit patterns of EntryDetails and Ordering (with `|` alternatives and `_`),
`if` / `else if` chains over `==`, `!=`, `&&`, `||`, `!`, blocks with leading `trace!(..);` / `let x = <expr>;` statements, `Some(..)`, `None`,
booleans, `panic!(..)`.  Anything else raises Unsupported (the extractor then reports the function as not recognised: fail closed)."""
import re


class Unsupported(Exception):
    pass


TOK = re.compile(r'\s*(::|=>|==|!=|&&|\|\||\+=|\*|[A-Za-z_][A-Za-z0-9_]*!?|\d+|"(?:[^"\\]|\\.)*"|[{}()\[\],;:.&|!=<>_])')


def tokenize(src):
    out, i = [], 0
    while i < len(src):
        m = TOK.match(src, i)
        if not m:
            if src[i:].strip() == '':
                break
            raise Unsupported('cannot tokenize at ' + src[i:i + 30])
        out.append(m.group(1)); i = m.end()
    return out


class P:
    def __init__(self, toks, env):
        self.t, self.i, self.env = toks, 0, env

    def peek(self, k=0):
        return self.t[self.i + k] if self.i + k < len(self.t) else None

    def eat(self, x=None):
        tok = self.peek()
        if tok is None or (x is not None and tok != x):
            raise Unsupported(f'expected {x!r}, found {tok!r} at {self.t[self.i - 3:self.i + 4]}')
        self.i += 1
        return tok

    def skip_parens(self):
        self.eat('('); depth = 1
        while depth:
            tok = self.eat()
            if tok == '(': depth += 1
            elif tok == ')': depth -= 1

    # ---- paths and names
    def path(self):
        parts = [self.eat()]
        while self.peek() == '::':
            self.eat('::'); parts.append(self.eat())
        return parts

    def name(self, n):
        if n in self.env: return self.env[n]
        if not re.fullmatch(r'[a-z_][a-z0-9_]*', n): raise Unsupported('name ' + n)
        return n

    # ---- patterns
    def pattern(self):
        if self.peek() == '_':
            self.eat(); return '_'
        p = self.path()
        fields = None
        if self.peek() == '{':
            self.eat('{'); fields = {}
            while self.peek() != '}':
                if self.peek() == '.':
                    self.eat('.'); self.eat('.')
                else:
                    f = self.eat(); b = f
                    if self.peek() == ':':
                        self.eat(':'); b = self.eat()
                    fields[f] = b
                if self.peek() == ',': self.eat(',')
            self.eat('}')
        key = '::'.join(p)
        if key == 'EntryDetails::File':
            return '.file %s _' % ((fields or {}).get('modified_time', '_'))
        if key == 'EntryDetails::Folder' and fields is None:
            return '.folder'
        if key == 'EntryDetails::Symlink':
            f = fields or {}
            return '.symlink %s %s' % (f.get('kind', '_'), f.get('target', '_'))
        if key in ('Ordering::Equal', 'Ordering::Greater', 'Ordering::Less') and fields is None:
            return key
        raise Unsupported('pattern ' + key)

    # ---- conditions
    def atom(self):
        tok = self.peek()
        if tok == '!':
            self.eat(); return '(!' + self.atom() + ')'
        if tok == '(':
            self.eat('('); e = self.cond(); self.eat(')'); return '(' + e + ')'
        if tok in ('true', 'false'):
            return self.eat()
        p = self.path()
        while self.peek() == '.':
            self.eat('.'); p = ['.'.join(['::'.join(p), self.eat()])]
        key = '::'.join(p)
        if key in self.env: return self.env[key]
        if key == 'DestFileUpdateBehaviour::Skip': return 'SKIP'
        if len(p) == 1: return self.name(p[0])
        raise Unsupported('operand ' + key)

    def cmp_(self):
        a = self.atom()
        if self.peek() in ('==', '!='):
            op = self.eat(); b = self.atom()
            if 'SKIP' in (a, b):
                other = a if b == 'SKIP' else b
                if other != 'c.sameTimeBehaviour': raise Unsupported('comparison with Skip')
                return 'c.sameTimeSkip' if op == '==' else '(!c.sameTimeSkip)'
            return f'(decide ({a} = {b}))' if op == '==' else f'(decide ({a} ≠ {b}))'
        return a

    def conj(self):
        e = self.cmp_()
        while self.peek() == '&&':
            self.eat(); e = f'({e} && {self.cmp_()})'
        return e

    def cond(self):
        e = self.conj()
        while self.peek() == '||':
            self.eat(); e = f'({e} || {self.conj()})'
        return e

    # ---- expressions
    def block(self):
        self.eat('{')
        lets = []
        while True:
            if self.peek() in ('trace!', 'debug!'):
                self.eat(); self.skip_parens(); self.eat(';'); continue
            if self.peek() == 'let':
                self.eat('let'); v = self.eat(); self.eat('='); e = self.expr(); self.eat(';')
                lets.append((v, e)); continue
            break
        e = self.expr()
        self.eat('}')
        for v, le in reversed(lets):
            e = f'(({le}).bind fun {v} => {e})' if self.kind == 'option' else f'(let {v} := {le}; {e})'
        return e

    def expr(self):
        tok = self.peek()
        if tok == '{':
            return self.block()
        if tok == 'match':
            self.eat('match')
            scrut = self.eat()
            ordering = None
            if self.peek() == '.':
                self.eat('.'); self.eat('cmp'); self.eat('('); self.eat('&'); other = self.eat(); self.eat(')')
                ordering = (self.name(scrut), self.name(other))
            self.eat('{')
            arms = []
            while self.peek() != '}':
                pats = [self.pattern()]
                while self.peek() == '|':
                    self.eat('|'); pats.append(self.pattern())
                self.eat('=>')
                e = self.expr()
                if self.peek() == ',': self.eat(',')
                arms.append((pats, e))
            self.eat('}')
            if ordering:
                d = {p: e for pats, e in arms for p in pats}
                if set(d) != {'Ordering::Equal', 'Ordering::Greater', 'Ordering::Less'}: raise Unsupported('ordering arms')
                a, b = ordering
                return f'(if {a} = {b} then {d["Ordering::Equal"]} else if {a} > {b} then {d["Ordering::Greater"]} else {d["Ordering::Less"]})'
            return '(match ' + self.name(scrut) + ' with' + ''.join(f' | {p} => {e}' for pats, e in arms for p in pats) + ')'
        if tok == 'if':
            self.eat('if'); c = self.cond(); t = self.block()
            self.eat('else')
            e = self.expr() if self.peek() == 'if' else self.block()
            return f'(if {c} then {t} else {e})'
        if tok == 'Some':
            self.eat(); self.eat('('); p = '::'.join(self.path()); self.eat(')')
            m = {'CopyReason::SameTimeAndNotSkipped': '.sameTime', 'CopyReason::DestOlder': '.destOlder', 'CopyReason::DestNewer': '.destNewer', 'CopyReason::NotOnDest': '.notOnDest'}
            if p not in m: raise Unsupported('Some(' + p + ')')
            return f'(some (some {m[p]}))'
        if tok == 'None':
            self.eat(); return '(some none)'
        if tok in ('true', 'false'):
            return self.eat()
        if tok == 'panic!':
            self.eat(); self.skip_parens(); return 'none'
        # a bare variable (the value of a `let ... = match ... { pat => var, .. }`)
        if re.fullmatch(r'[a-z_][a-z0-9_]*', tok or ''):
            self.eat(); return f'(some {self.name(tok)})' if self.kind == 'option' else self.name(tok)
        raise Unsupported(f'expression at {self.t[self.i:self.i + 5]}')


def translate(body, env, kind):
    """body: the function body `{ ... }` (comments stripped); kind: 'bool' or 'option' (Option (Option CopyReason), outer none = panic)"""
    p = P(tokenize(body), env); p.kind = kind
    e = p.block()
    if p.peek() is not None: raise Unsupported('trailing tokens')
    return e


# ---------------------------------------------------------------------------------------------------------------------------
# statement level: `process_src_entry` / `process_dest_entry` of boss_sync.rs, translated into `PState -> Option PState` functions
# (`none` = a panic: `update().unwrap()` of a missing key, or the `panic!` arm of `needs_copy`).
# Subset: `trace!(..);`, the statistics `match` (every arm only touches `ctx.stats.*` - translated to nothing), the four containers'
# `add` / `update` / `remove`, `match <container>.lookup(&p) { None => .., Some(x) => .. }`, `if needs_delete(a, b, flag) {..} else {..}`,
# `if let Some(r) = needs_copy(ctx, &p, a, b) {..} [else {..}]`.

CONTAINERS = {'to_delete': 'del', 'to_copy': 'cpy', 'src_entries': 'src', 'dest_entries': 'dst'}
DEL_REASON = {'DeleteReason::NotOnSource': '.notOnSource', 'DeleteReason::Incompatible': '.incompatible'}
COPY_REASON = {'CopyReason::SameTimeAndNotSkipped': '.sameTime', 'CopyReason::DestOlder': '.destOlder', 'CopyReason::DestNewer': '.destNewer', 'CopyReason::NotOnDest': '.notOnDest'}
STATS_WORDS = re.compile(r'ctx|stats|size|saturating_add|add|num_\w+|\w+_total_bytes|\w+_hist|\d+|[.()=*]|\+=')


class S(P):
    """statements -> Lean expressions of type `Option PState` over the state variable `s`"""

    def __init__(self, toks, entries):
        P.__init__(self, toks, {})
        self.entries = set(entries)      # identifiers that hold an EntryDetails
        self.reasons = set()             # identifiers bound by `if let Some(r) = needs_copy(..)`

    def entry_arg(self):
        if self.peek() == '&': self.eat()
        n = self.eat()
        if n not in self.entries: raise Unsupported('entry operand ' + n)
        if self.peek() == '.':
            self.eat('.'); self.eat('clone'); self.eat('('); self.eat(')')
        return n

    def key_arg(self):
        if self.peek() == '&': self.eat()
        self.eat('p')
        if self.peek() == '.':
            self.eat('.'); self.eat('clone'); self.eat('('); self.eat(')')

    def value(self, cont):
        if cont in ('src', 'dst'):
            return self.entry_arg()
        self.eat('('); e = self.entry_arg(); self.eat(',')
        tok = self.peek()
        if tok in self.reasons:
            self.eat(); r = tok
        else:
            key = '::'.join(self.path())
            table = DEL_REASON if cont == 'del' else COPY_REASON
            if key not in table: raise Unsupported('reason ' + key)
            r = table[key]
        self.eat(')')
        return f'({e}, {r})'

    def stats_stmt(self, enders):
        """`ctx.stats.<...>` up to one of `enders` at depth 0; only words of the statistics"""
        if [self.peek(0), self.peek(1), self.peek(2), self.peek(3)] != ['ctx', '.', 'stats', '.']:
            raise Unsupported(f'statement in the statistics match at {self.t[self.i:self.i + 5]}')
        depth = 0
        while True:
            tok = self.peek()
            if tok is None: raise Unsupported('unterminated statistics statement')
            if depth == 0 and tok in enders: return
            if not STATS_WORDS.fullmatch(tok): raise Unsupported('word in a statistics statement: ' + tok)
            if tok == '(': depth += 1
            if tok == ')': depth -= 1
            self.eat()

    def stats_match(self):
        self.eat('{')
        while self.peek() != '}':
            self.pattern()
            self.eat('=>')
            if self.peek() == '{':
                self.eat('{')
                while self.peek() != '}':
                    self.stats_stmt((';',)); self.eat(';')
                self.eat('}')
            else:
                self.stats_stmt((',', '}'))
            if self.peek() == ',': self.eat(',')
        self.eat('}')

    def simple(self):
        """one container operation (no terminator)"""
        c = self.eat()
        if c not in CONTAINERS: raise Unsupported('statement starting with ' + c)
        f = CONTAINERS[c]
        self.eat('.'); op = self.eat(); self.eat('(')
        if op == 'add':
            self.key_arg(); self.eat(','); v = self.value(f); self.eat(')')
            return f'(some {{ s with {f} := s.{f}.add p {v} }})'
        if op == 'update':
            self.key_arg(); self.eat(','); v = self.value(f); self.eat(')')
            return f'((s.{f}.update p {v}).map fun m => {{ s with {f} := m }})'
        if op == 'remove':
            self.key_arg(); self.eat(')')
            return f'(some {{ s with {f} := s.{f}.remove p }})'
        raise Unsupported('container operation ' + op)

    def stmt_block(self):
        self.eat('{')
        out = []
        while self.peek() != '}':
            st = self.stmt()
            if st is not None: out.append(st)
        self.eat('}')
        return self.seq(out)

    @staticmethod
    def seq(out):
        if not out: return '(some s)'
        e = out[-1]
        for st in reversed(out[:-1]):
            e = f'(({st}).bind fun s => {e})'
        return e

    def arm_body(self):
        """the right-hand side of a match arm: a block, or one container operation"""
        if self.peek() == '{': return self.stmt_block()
        return self.simple()

    def stmt(self):
        tok = self.peek()
        if tok in ('trace!', 'debug!'):
            self.eat(); self.skip_parens(); self.eat(';'); return None
        if tok == 'match':
            self.eat('match'); scrut = self.eat()
            if self.peek() == '.':
                if scrut not in CONTAINERS: raise Unsupported('lookup in ' + scrut)
                self.eat('.'); self.eat('lookup'); self.eat('('); self.key_arg(); self.eat(')')
                self.eat('{')
                arms = {}
                while self.peek() != '}':
                    if self.peek() == 'None':
                        self.eat(); self.eat('=>'); arms['none'] = self.arm_body()
                    else:
                        self.eat('Some'); self.eat('('); v = self.eat(); self.eat(')'); self.eat('=>')
                        if not re.fullmatch(r'[a-z_][a-z0-9_]*', v): raise Unsupported('binder ' + v)
                        self.entries.add(v)
                        arms['some'] = (v, self.arm_body())
                    if self.peek() == ',': self.eat(',')
                self.eat('}')
                if set(arms) != {'none', 'some'}: raise Unsupported('arms of a lookup match')
                v, body = arms['some']
                return f'(match s.{CONTAINERS[scrut]}.get p with | none => {arms["none"]} | some {v} => {body})'
            if scrut not in self.entries: raise Unsupported('match on ' + scrut)
            self.stats_match()
            return None
        if tok == 'if':
            self.eat('if')
            if self.peek() == 'let':
                self.eat('let'); self.eat('Some'); self.eat('('); r = self.eat(); self.eat(')'); self.eat('=')
                if not re.fullmatch(r'[a-z_][a-z0-9_]*', r): raise Unsupported('binder ' + r)
                self.eat('needs_copy'); self.eat('('); self.eat('ctx'); self.eat(','); self.key_arg(); self.eat(',')
                a = self.entry_arg(); self.eat(','); b = self.entry_arg(); self.eat(')')
                self.reasons.add(r)
                t = self.stmt_block()
                self.reasons.discard(r)
                e = '(some s)'
                if self.peek() == 'else':
                    self.eat('else'); e = self.stmt_block()
                return f'(match needsCopySrc c {a} {b} with | none => none | some (some {r}) => {t} | some none => {e})'
            self.eat('needs_delete'); self.eat('('); a = self.entry_arg(); self.eat(','); b = self.entry_arg(); self.eat(',')
            self.eat('dest_platform_differentiates_symlinks'); self.eat(')')
            t = self.stmt_block()
            e = '(some s)'
            if self.peek() == 'else':
                self.eat('else'); e = self.stmt_block()
            return f'(if needsDeleteSrc c {a} {b} then {t} else {e})'
        st = self.simple()
        self.eat(';')
        return st


def translate_proc(body, entry):
    """body of process_src_entry / process_dest_entry; `entry`: the name of its EntryDetails parameter"""
    p = S(tokenize(body), [entry])
    e = p.stmt_block()
    if p.peek() is not None: raise Unsupported('trailing tokens')
    return e


DELETE_CMDS = {'Command::DeleteFile': ('.deleteFile', False), 'Command::DeleteFolder': ('.deleteFolder', False), 'Command::DeleteSymlink': ('.deleteSymlink', True)}


def translate_delete_cmd(match_text, path_name, entry_name):
    """`match <entry> { pattern => { statistics...; Command::DeleteX { path: <path>.clone() [, kind: *kind] } } ... }` -> a Lean `match` giving a `Cmd`"""
    p = S(tokenize(match_text), [entry_name])
    p.eat('match'); p.eat(entry_name); p.eat('{')
    arms = []
    while p.peek() != '}':
        pat = p.pattern(); p.eat('=>'); p.eat('{')
        while p.peek() == 'ctx':
            p.stats_stmt((';',)); p.eat(';')
        key = '::'.join(p.path())
        if key not in DELETE_CMDS: raise Unsupported('command ' + key)
        ctor, has_kind = DELETE_CMDS[key]
        p.eat('{'); fields = {}
        while p.peek() != '}':
            fld = p.eat(); p.eat(':')
            if fld == 'path':
                p.eat(path_name); p.eat('.'); p.eat('clone'); p.eat('('); p.eat(')'); fields['path'] = 'p'
            elif fld == 'kind':
                p.eat('*'); fields['kind'] = p.name(p.eat())
            else:
                raise Unsupported('field ' + fld)
            if p.peek() == ',': p.eat(',')
        p.eat('}'); p.eat('}')
        if p.peek() == ',': p.eat(',')
        if set(fields) != ({'path', 'kind'} if has_kind else {'path'}): raise Unsupported('fields of ' + key)
        arms.append(f' | {pat} => {ctor} p' + (' ' + fields['kind'] if has_kind else ''))
    p.eat('}')
    if p.peek() is not None: raise Unsupported('trailing tokens')
    return '(match d with' + ''.join(arms) + ')'
