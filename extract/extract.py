#!/usr/bin/env python3
"""Tie A: reads /repo/src on every run and rewrites lean/RjModel/Generated/*.lean.
Each recogniser fails closed: a shape it no longer recognises is reported in the status JSON
(last stdout line) and the generated definition becomes `none`, so that the theorem that needs it
stops checking instead of silently using a stale value."""
import json, os, re, sys

REPO = os.environ.get('VERIF_REPO', '/repo')
V = os.path.dirname(os.path.dirname(os.path.abspath(__file__)))
GEN = os.path.join(V, 'lean', 'RjModel', 'Generated')
status = {}


def read(rel):
    return open(os.path.join(REPO, rel), newline='').read().replace('\r\n', '\n')


def strip_comments(src):
    """Removes // and /* */ comments, keeps string literals intact."""
    out, i, n = [], 0, len(src)
    while i < n:
        c = src[i]
        if c == '"':
            j = i + 1
            while j < n and src[j] != '"':
                j += 2 if src[j] == '\\' else 1
            out.append(src[i:j + 1]); i = j + 1
        elif src.startswith('//', i):
            j = src.find('\n', i); i = n if j < 0 else j
        elif src.startswith('/*', i):
            j = src.find('*/', i); i = n if j < 0 else j + 2
        elif c == "'" and i + 2 < n and (src[i + 2] == "'" or (src[i + 1] == '\\' and src.find("'", i + 2) - i <= 4)):
            j = src.find("'", i + 2) if src[i + 1] == '\\' else i + 2
            out.append(src[i:j + 1]); i = j + 1
        else:
            out.append(c); i += 1
    return ''.join(out)


def fn_body(src, name):
    """Text of `fn name...{ ... }` (brace matched), comments already stripped."""
    m = re.search(r'\bfn\s+' + re.escape(name) + r'\b', src)
    if not m:
        return None
    i = src.find('{', m.end())
    depth, j = 0, i
    while j < len(src):
        if src[j] == '"':
            k = j + 1
            while k < len(src) and src[k] != '"':
                k += 2 if src[k] == '\\' else 1
            j = k + 1; continue
        if src[j] == '{': depth += 1
        elif src[j] == '}':
            depth -= 1
            if depth == 0:
                return src[i:j + 1]
        j += 1
    return None


def eval_int(expr):
    expr = expr.strip().replace('_', '')
    expr = re.sub(r'(?<=\d)(usize|u64|u32|u8|i32)\b', '', expr)
    if not re.fullmatch(r'[0-9x*+\-\s()a-fA-F]+', expr):
        return None
    try:
        return int(eval(expr, {'__builtins__': {}}))
    except Exception:
        return None


def lean_str(s):
    return '"' + s.replace('\\', '\\\\').replace('"', '\\"') + '"'


def lean_opt_nat(v):
    return 'none' if v is None else f'(some {v})'


def write(name, body):
    path = os.path.join(GEN, name)
    content = '-- GENERATED from /repo by /verif/extract/extract.py on every run. Do not edit.\n' + body
    if os.path.exists(path) and open(path).read() == content:
        return
    open(path, 'w').write(content)


# ------------------------------------------------------------------ Constants
def constants():
    d = {}
    bs = strip_comments(read('src/boss_sync.rs'))
    body = fn_body(bs, 'compile_filters') or ''
    m = re.search(r'let\s+pattern\s*=\s*format!\(\s*"([^"]*)\{pattern\}([^"]*)"\s*\)', body)
    if m:
        d['filterWrapPre'], d['filterWrapPost'] = m.group(1), m.group(2)
    else:
        status['filterWrap'] = 'not recognised'
        d['filterWrapPre'], d['filterWrapPost'] = None, None

    bl = strip_comments(read('src/boss_launch.rs'))
    m = re.search(r'const\s+BOSS_DOER_CHANNEL_MEMORY_CAPACITY\s*:\s*usize\s*=\s*([^;]+);', bl)
    d['channelCapacity'] = eval_int(m.group(1)) if m else None

    doer = strip_comments(read('src/doer.rs'))
    body = fn_body(doer, 'handle_get_file_contents') or ''
    m = re.search(r'let\s+mut\s+chunk_size\s*=\s*([^;]+);', body)
    d['firstChunk'] = eval_int(m.group(1)) if m else None
    m = re.search(r'chunk_size\s*=\s*std::cmp::min\(\s*chunk_size\s*\*\s*(\d+)\s*,\s*([^)]+)\)', body)
    d['chunkGrowth'] = eval_int(m.group(1)) if m else None
    d['maxChunk'] = eval_int(m.group(2)) if m else None
    m = re.search(r'next_buf\s*=\s*vec!\[0;\s*(\d+)\s*\]', body)
    d['smallBuf'] = eval_int(m.group(1)) if m else None

    ec = strip_comments(read('src/encrypted_comms.rs'))
    bufs = re.findall(r'let\s+mut\s+buffer\s*=\s*vec!\[0u8;\s*([^\]]+)\]', ec)
    vals = {eval_int(b) for b in bufs}
    d['frameBuffer'] = vals.pop() if len(vals) == 1 and len(bufs) == 2 else None
    # nonce step: the counter must be *assigned* the incremented value
    def nonce_step(fn, var):
        b = fn_body(ec, fn) or ''
        m = re.search(r'\*' + var + r'\s*=\s*' + var + r'\.checked_add\((\d+)\)\.unwrap\(\)\s*;', b) or \
            re.search(r'\*' + var + r'\s*=\s*\(?\*?' + var + r'\)?\s*\.checked_add\((\d+)\)\s*\.(?:unwrap|expect)\(', b)
        if m:
            return int(m.group(1))
        if re.search(var + r'\.checked_add\(\d+\)\.unwrap\(\)\s*;', b):
            return 0        # computed and discarded
        return None
    d['sendNonceStep'] = nonce_step('send', 'sending_nonce_counter')
    d['recvNonceStep'] = nonce_step('receive', 'receiving_nonce_counter')
    # parities: boss (send 0 / recv 1), doer (send 1 / recv 0)
    m = re.search(r'AsyncEncryptedComms::new\(\s*tcp_connection\s*,\s*secret_key\s*,\s*(\d+)\s*,\s*(\d+)\s*,', bl)
    d['bossSendParity'], d['bossRecvParity'] = (int(m.group(1)), int(m.group(2))) if m else (None, None)
    m = re.search(r'AsyncEncryptedComms::new\(\s*tcp_connection\s*,\s*\*secret_key\s*,\s*(\d+)\s*,\s*(\d+)\s*,', doer)
    d['doerSendParity'], d['doerRecvParity'] = (int(m.group(1)), int(m.group(2))) if m else (None, None)

    pw = strip_comments(read('src/parallel_walk_dir.rs'))
    m = re.search(r'bounded::<[^;]*>\((\d+)\)', pw)
    d['walkResultBound'] = int(m.group(1)) if m else None

    codes = set()
    for f in ('src/boss_frontend.rs', 'src/doer.rs', 'src/main.rs'):
        codes |= {int(x) for x in re.findall(r'ExitCode::from\((\d+)\)', strip_comments(read(f)))}
    fe = strip_comments(read('src/boss_frontend.rs'))
    boss_codes = sorted({int(x) for x in re.findall(r'ExitCode::from\((\d+)\)', fe)})
    d['bossExitCodes'] = boss_codes

    lines = ['namespace Rj.Generated']
    for k in ('filterWrapPre', 'filterWrapPost'):
        v = d[k]
        # a wrap that is not recognised becomes a string no theorem accepts
        lines.append(f'def {k} : String := {lean_str(v if v is not None else "<unrecognised>")}')
    for k in ('channelCapacity', 'firstChunk', 'chunkGrowth', 'maxChunk', 'smallBuf', 'frameBuffer', 'sendNonceStep',
              'recvNonceStep', 'bossSendParity', 'bossRecvParity', 'doerSendParity', 'doerRecvParity', 'walkResultBound'):
        if d[k] is None:
            status[k] = 'not recognised'
        lines.append(f'def {k} : Option Nat := {lean_opt_nat(d[k])}')
    lines.append('def bossExitCodes : List Nat := [' + ', '.join(map(str, boss_codes)) + ']')
    lines.append('end Rj.Generated')
    write('Constants.lean', '\n'.join(lines) + '\n')
    status['constants'] = {k: d[k] for k in d}


def main():
    os.makedirs(GEN, exist_ok=True)
    constants()
    for name in sorted(EXTRA):
        try:
            EXTRA[name]()
        except Exception as e:  # fail closed, loudly
            status[name] = f'extractor crashed: {e!r}'
    print(json.dumps(status))


EXTRA = {}
try:
    sys.path.insert(0, os.path.dirname(os.path.abspath(__file__)))
    import extract_more
    EXTRA = extract_more.register(globals())
except ImportError:
    pass

if __name__ == '__main__':
    main()
