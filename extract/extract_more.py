"""Further extractors (Defaults, Sites, ...).  Each writes one Generated/*.lean file."""
import re


def register(g):
    read, strip_comments, fn_body, write, status, lean_str = g['read'], g['strip_comments'], g['fn_body'], g['write'], g['status'], g['lean_str']

    BEH = {'Prompt': '.prompt', 'Error': '.error', 'Skip': '.skip', 'Overwrite': '.proceed', 'Delete': '.proceed', 'Proceed': '.proceed'}

    def defaults():
        fe = strip_comments(read('src/boss_frontend.rs'))
        # impl Default for SyncSpec
        m = re.search(r'impl\s+Default\s+for\s+SyncSpec\s*\{', fe)
        body = fe[m.end():fe.index('\n}\n', m.end())] if m else ''
        dflt = dict(re.findall(r'(\w+_behaviour)\s*:\s*\w+::(\w+)\s*,', body))
        m = re.search(r'impl\s+Default\s+for\s+Spec\s*\{', fe)
        body2 = fe[m.end():fe.index('\n}\n', m.end())] if m else ''
        md = re.search(r'deploy_behaviour\s*:\s*DeployBehaviour::(\w+)', body2)
        rs = fn_body(fe, 'resolve_spec') or ''
        guards = {}
        for mm in re.finditer(r'if\s+sync\.(\w+)\s*!=\s*\w+::(\w+)\s*\{\s*sync\.(\w+)\s*=\s*match\s+b\s*\{(.*?)\}\s*\}', rs, re.S):
            f, g_, f2, arms = mm.group(1), mm.group(2), mm.group(3), mm.group(4)
            amap = dict(re.findall(r'AllDestructiveBehaviour::(\w+)\s*=>\s*\w+::(\w+)', arms))
            if f == f2:
                guards[f] = (g_, amap, mm.start())
        overrides = {}
        for mm in re.finditer(r'if\s+let\s+Some\(b\)\s*=\s*args\.(\w+)\s*\{\s*sync\.(\w+)\s*=\s*b\s*;\s*\}', rs):
            overrides[mm.group(2)] = (mm.group(1), mm.start())
        fields = ['dest_file_newer_behaviour', 'dest_file_older_behaviour', 'files_same_time_behaviour',
                  'dest_entry_needs_deleting_behaviour', 'dest_root_needs_deleting_behaviour']
        lines = ['import RjModel.Model.Settings', 'namespace Rj.Generated', 'def fieldRules : List FieldRule := [']
        rows = []
        for f in fields:
            d = BEH.get(dflt.get(f, ''), None)
            if d is None:
                status[f'default:{f}'] = 'not recognised'
                d = '.error'   # a value no documented default equals for all five fields
            g_ = guards.get(f)
            ov = overrides.get(f)
            if g_ is None:
                status[f'all-destructive:{f}'] = 'not recognised'
            if ov is None:
                status[f'flag-override:{f}'] = 'not recognised'
            guard = f'(some {BEH.get(g_[0], ".prompt")})' if g_ else 'none'
            amap = g_[1] if g_ else {}
            arms = [BEH.get(amap.get(k, ''), '.prompt' if k != 'Prompt' else '.error') for k in ('Prompt', 'Error', 'Skip', 'Proceed')]
            rows.append(f'  {{ name := {lean_str(f)}, flag := {lean_str(ov[0] if ov else "")}, default := {d}, guardNe := {guard}, '
                        f'mapPrompt := {arms[0]}, mapError := {arms[1]}, mapSkip := {arms[2]}, mapProceed := {arms[3]}, '
                        f'allBeforeFlag := {"true" if (g_ and ov and g_[2] < ov[1]) or not (g_ and ov) else "false"} }}')
        lines.append(',\n'.join(rows))
        lines.append(']')
        dep = {'Prompt': '.prompt', 'Error': '.error', 'Ok': '.ok', 'Force': '.force'}
        lines.append(f'def deployDefault : DeployBeh := {dep.get(md.group(1) if md else "", ".force")}')
        fr = re.search(r'if\s*!\s*args\.filter\.is_empty\(\)\s*\{\s*sync\.filters\s*=\s*args\.filter\.clone\(\)\s*;\s*\}', rs) is not None
        dr = re.search(r'if\s+let\s+Some\(b\)\s*=\s*args\.deploy\s*\{\s*spec\.deploy_behaviour\s*=\s*b\s*;\s*\}', rs) is not None
        if not fr: status['filters-replace'] = 'not recognised'
        if not dr: status['deploy-override'] = 'not recognised'
        lines.append(f'def filtersReplace : Bool := {"true" if fr else "false"}')
        lines.append(f'def deployFlagOverrides : Bool := {"true" if dr else "false"}')
        lines.append('end Rj.Generated')
        write('Defaults.lean', '\n'.join(lines) + '\n')

    def skeletons():
        import re as _re
        mb = strip_comments(read('src/memory_bound_channel.rs'))
        send = fn_body(mb, 'send') or ''
        recv = fn_body(mb, 'recv') or ''
        tryr = fn_body(mb, 'try_recv') or ''
        i_add = send.find('fetch_add(memory_usage')
        m_if = _re.search(r'if\s+(old_usage|new_usage|\w+)\s*(>=|>)\s*self\.memory_capacity', send)
        m_spin = _re.search(r'while\s+self\.channel_memory_usage\.load\([^)]*\)\s*(-\s*memory_usage)?\s*(>=|>)\s*self\.memory_capacity', send)
        i_send = send.find('self.inner.send((msg, memory_usage))')
        old_is_prev = _re.search(r'let\s+old_usage\s*=\s*self\.channel_memory_usage\.fetch_add\(memory_usage', send) is not None
        f = dict(
            countBeforeBlock=i_add >= 0 and m_if is not None and i_add < m_if.start(),
            admitComparesOld=m_if is not None and m_if.group(1) == 'old_usage' and old_is_prev,
            admitStrict=m_if is not None and m_if.group(2) == '>',
            spinSubtractsOwn=m_spin is not None and m_spin.group(1) is not None,
            spinStrict=m_spin is not None and m_spin.group(2) == '>',
            sendAfterWait=i_send >= 0 and m_spin is not None and i_send > m_spin.start(),
            recvReleases='fetch_sub(memory_usage' in recv and recv.find('self.inner.recv()') < recv.find('fetch_sub(memory_usage'),
            tryRecvReleases='fetch_sub(memory_usage' in tryr and tryr.find('self.inner.try_recv()') < tryr.find('fetch_sub(memory_usage'),
            waitChecksReceiverGone=(m_spin is not None and _re.search(r'if\s+self\.receiver_dropped\.load\([^)]*\)\s*\{[^}]*break;', send[m_spin.start():i_send if i_send > 0 else None], _re.S) is not None and
                                    _re.search(r'impl<T>\s+Drop\s+for\s+Receiver<T>\s*\{[^}]*\{[^}]*receiver_dropped\.store\(true', mb, _re.S) is not None))
        for k, v in f.items():
            if not v:
                status['channel:' + k] = 'not recognised / differs from the reference protocol'
        b = lambda x: 'true' if x else 'false'
        lines = ['import RjModel.Model.Channel', 'namespace Rj.Generated',
                 'def channelFeatures : ChanFeatures := ⟨' + ', '.join(b(f[k]) for k in ('countBeforeBlock', 'admitComparesOld', 'admitStrict', 'spinSubtractsOwn', 'spinStrict', 'sendAfterWait', 'recvReleases', 'tryRecvReleases', 'waitChecksReceiverGone')) + '⟩',
                 'end Rj.Generated']
        write('Skeletons.lean', '\n'.join(lines) + '\n')

    def sites():
        import re as _re
        rows = []
        for f in ('src/boss_sync.rs', 'src/boss_launch.rs', 'src/boss_frontend.rs'):
            src = strip_comments(read(f))
            for m in _re.finditer(r'(\w+(?:\.\w+)*)\s*\.send_command\(\s*Command::(\w+)', src):
                recv, variant = m.group(1), m.group(2)
                handle = 'src' if 'src_comms' in recv else ('dest' if 'dest_comms' in recv else ('self' if recv == 'self' else recv))
                # enclosing block headers (brace matching backwards)
                depth, i, guards = 0, m.start(), []
                while i > 0:
                    i -= 1
                    ch = src[i]
                    if ch == '}': depth += 1
                    elif ch == '{':
                        if depth == 0:
                            j = max(src.rfind('\n', 0, i), src.rfind(';', 0, i), src.rfind('}', 0, i), src.rfind('{', 0, i))
                            guards.append(' '.join(src[j + 1:i].split()))
                        else:
                            depth -= 1
                guarded = any(_re.fullmatch(r'(?:let result = Ok\()?if !ctx\.dry_run', g) for g in guards)
                fn = _re.findall(r'\bfn\s+(\w+)', src[:m.start()])
                rows.append((f, fn[-1] if fn else '', handle, variant, guarded))
        # `let result = Ok(if !ctx.dry_run { ctx.dest_comms.send_command(c)?; }` sends a variable: the delete site
        bs = strip_comments(read('src/boss_sync.rs'))
        m = _re.search(r'if\s*!\s*ctx\.dry_run\s*\{\s*ctx\.dest_comms\.send_command\(c\)\?;', fn_body(bs, 'delete_dest_entry') or '')
        dd = fn_body(bs, 'delete_dest_entry') or ''
        for v in _re.findall(r'Command::(Delete\w+)\s*\{', dd):
            rows.append(('src/boss_sync.rs', 'delete_dest_entry', 'dest', v, m is not None))
        if not any(r[3].startswith('Delete') for r in rows):
            status['sites:delete'] = 'not recognised'
        unguarded_var = _re.findall(r'(\w+_comms)\s*\.send_command\(\s*([a-z_]\w*)\s*\)', bs)
        extra = [(h, v) for h, v in unguarded_var if not (v == 'c' and 'dest' in h)]
        if extra:
            status['sites:opaque'] = f'send_command of a variable that is not recognised: {extra}'
            for h, v in extra:
                rows.append(('src/boss_sync.rs', '?', 'src' if 'src' in h else 'dest', 'Opaque', False))
        lines = ['namespace Rj.Generated', 'structure Site where', '  file : String', '  fn : String', '  handle : String', '  variant : String', '  dryGuarded : Bool', '  deriving DecidableEq, Repr',
                 'def sites : List Site := [']
        lines.append(',\n'.join(f'  ⟨{lean_str(a)}, {lean_str(b)}, {lean_str(c)}, {lean_str(d)}, {"true" if e else "false"}⟩' for a, b, c, d, e in rows))
        lines += [']', 'end Rj.Generated']
        write('Sites.lean', '\n'.join(lines) + '\n')

    def shutdown():
        import re as _re
        bl = strip_comments(read('src/boss_launch.rs'))
        body = fn_body(bl, 'shutdown') or ''
        i_join = body.find('thread.join()')
        m_loop = _re.search(r'while\s*!\s*thread\.is_finished\(\)\s*\{[^}]*receiver\.try_recv\(\)', body, _re.S)
        local = m_loop is not None and i_join > m_loop.start()
        m_rem = _re.search(r'loop\s*\{\s*match\s+encrypted_comms\.receiver\.recv\(\)\s*\{.*?Ok\(Response::ProfilingData\(x\)\)\s*=>\s*\{.*?break;.*?Ok\(_\)\s*=>\s*continue', body, _re.S)
        remote = m_rem is not None and body.find('encrypted_comms.shutdown()') > m_rem.start()
        bs = strip_comments(read('src/boss_sync.rs'))
        q = fn_body(bs, 'query_entries') or ''
        nb = (_re.search(r'0\s*=>\s*match\s+ctx\.src_comms\.try_receive_response\(\)\?', q) is not None and
              _re.search(r'1\s*=>\s*match\s+ctx\.dest_comms\.try_receive_response\(\)\?', q) is not None and
              'receive_response()?' not in q.replace('try_receive_response()?', ''))
        for k, v in (('shutdown:local-drain', local), ('shutdown:remote-drain', remote), ('query:non-blocking-recv', nb)):
            if not v:
                status[k] = 'not recognised / differs from the reference skeleton'
        b = lambda x: 'true' if x else 'false'
        write('Shutdown.lean', 'import RjModel.Model.Shutdown\nnamespace Rj.Generated\n' +
              f'def shutdownFeatures : ShutFeatures := ⟨{b(local)}, {b(remote)}, {b(nb)}⟩\nend Rj.Generated\n')

    def panic_sites():
        import re as _re, json as _json, collections, os as _os
        files = ['boss_deploy', 'boss_doer_interface', 'boss_frontend', 'boss_launch', 'boss_progress', 'boss_sync', 'doer', 'encrypted_comms', 'exe_utils',
                 'histogram', 'logger_and_progress', 'main', 'memory_bound_channel', 'ordered_map', 'parallel_walk_dir', 'root_relative_path', 'embedded_binaries']
        KINDS = [('unwrap', r'\.unwrap\(\)'), ('expect', r'\.expect\('), ('panic', r'\bpanic!\('), ('assert', r'\bassert(?:_eq|_ne)?!\('),
                 ('debug_assert', r'\bdebug_assert(?:_eq|_ne)?!\('), ('unreachable', r'\b(?:unreachable|unimplemented|todo)!\('),
                 # implicit panics: calls that panic outside the value's range / off a char boundary, indexing and range slicing
                 ('split', r'\.(?:split_at|split_at_mut|split_off|swap_remove|copy_from_slice|splice|drain)\('),
                 ('index', r'(?<=[\w\)\]])\[(?!\s*\])[^\[\]\n]*\]'),
                 # arithmetic that panics on overflow in builds with overflow checks: compound assignments (sums of lengths, counters)
                 ('arith', r'(?<![=!<>+\-*/&|^%])(?:\+=|-=|\*=)')]
        inv = collections.Counter(); first_site = {}
        for f in files:
            try:
                src = strip_comments(read(f'src/{f}.rs'))
            except FileNotFoundError:
                status['panic-sites:' + f] = 'file missing'; continue
            i = src.find('#[cfg(test)]')
            if i >= 0: src = src[:i]
            fns = [(m.start(), m.group(1)) for m in _re.finditer(r'\bfn\s+(\w+)', src)]
            for kind, pat in KINDS:
                for m in _re.finditer(pat, src):
                    fn = [(p_, n) for p_, n in fns if p_ < m.start()]
                    key = (f, fn[-1][1] if fn else '', kind)
                    inv[key] += 1
                    # text of the enclosing function up to the first site of the group (for `guard_before`)
                    first_site.setdefault(key, src[fn[-1][0] if fn else 0:m.start()])
        groups = _json.load(open(_os.path.join(g_['V'], 'panic_sites.json')))['groups']
        table = {(g[0], g[1], g[2]): g[3] for g in groups}
        guards = {(g[0], g[1], g[2]): g[5] for g in groups if len(g) > 5}
        rows, bad = [], []
        for k, v in sorted(inv.items()):
            ok = table.get(k) == v
            if ok and k in guards and not _re.search(guards[k], first_site[k], _re.S):
                ok = False
                bad.append(f'{k[0]}.rs fn {k[1]} {k[2]}: the guard /{guards[k]}/ no longer precedes the site')
                rows.append((k, v, ok)); continue
            rows.append((k, v, ok))
            if not ok:
                bad.append(f'{k[0]}.rs fn {k[1]} {k[2]} x{v} (table: {table.get(k)})')
        if bad:
            status['panic-sites'] = 'unclassified or changed: ' + '; '.join(bad[:8])
        # the pre-epoch guard where entry details are read
        doer = strip_comments(read('src/doer.rs'))
        ed = fn_body(doer, 'entry_details_from_metadata') or ''
        pre = _re.search(r'if\s+modified_time\s*<\s*(?:std::time::)?(?:SystemTime::)?UNIX_EPOCH\s*\{\s*return\s+Err', ed) is not None
        if not pre: status['pre-epoch-guard'] = 'not recognised'
        # sums of file lengths (statistics, progress): saturating, so that lengths adding up to more than 2^64 cannot overflow (C18-F11)
        bp = strip_comments(read('src/boss_progress.rs')); bs = strip_comments(read('src/boss_sync.rs'))
        aa = fn_body(bp, 'add_assign') or ''
        sat = all(_re.search(r'self\.%s\s*=\s*self\.%s\.saturating_add\(\s*rhs\.%s\s*\)' % (f_, f_, f_), aa) for f_ in ('work', 'copy_bytes'))
        sat = sat and all(_re.search(r'ctx\.stats\.%s\s*=\s*ctx\.stats\.%s\.saturating_add\(' % (f_, f_), bs) and not _re.search(r'ctx\.stats\.%s\s*\+=' % f_, bs)
                          for f_ in ('src_total_bytes', 'dest_total_bytes', 'num_bytes_deleted', 'num_bytes_copied'))
        if not sat: status['byte-sums-saturate'] = 'not recognised'
        lines = ['namespace Rj.Generated', 'structure PanicGroup where', '  file : String', '  fn : String', '  kind : String', '  count : Nat', '  classified : Bool', '  deriving DecidableEq, Repr',
                 'def panicGroups : List PanicGroup := [',
                 ',\n'.join(f'  ⟨{lean_str(k[0])}, {lean_str(k[1])}, {lean_str(k[2])}, {v}, {"true" if ok else "false"}⟩' for k, v, ok in rows), ']',
                 f'def preEpochRejected : Bool := {"true" if pre else "false"}', f'def byteSumsSaturate : Bool := {"true" if sat else "false"}', 'end Rj.Generated']
        write('PanicSites.lean', '\n'.join(lines) + '\n')

    def walker():
        import re as _re
        pw = strip_comments(read('src/parallel_walk_dir.rs'))
        wm = fn_body(pw, 'worker_main') or ''
        i_send = wm.find('result_sender.send(Ok(Entry')
        i_inc = wm.find('num_unfinished_jobs.fetch_add(1')
        i_enq = wm.find('job_sender.send(Job::Dir(x))')
        i_dec = wm.find('num_unfinished_jobs.fetch_sub(1')
        m_skip = _re.search(r'if\s+f\.skip\s*\{\s*continue;', wm)
        m_type = _re.search(r'let\s+file_type\s*=\s*match\s+entry\.file_type\(\)', wm)
        m_rec = _re.search(r'let\s+child_dir_to_recurse\s*=\s*if\s+file_type\.is_dir\(\)', wm)
        m_last = _re.search(r'if\s+prev_count\s*==\s*1\s*\{.*?for\s+_\s+in\s+0\.\.num_threads\s*\{\s*job_sender\.send\(Job::Done\)', wm, _re.S)
        f = dict(entrySentBeforeJobQueued=0 <= i_send < i_enq, incBeforeEnqueue=0 <= i_inc < i_enq,
                 recursesOnUnfollowedType=m_type is not None and m_rec is not None and 'std::fs::metadata' not in wm and '.metadata()' not in wm,
                 skipBeforeSend=m_skip is not None and m_skip.start() < i_send, lastFinisherBroadcasts=m_last is not None,
                 decAfterJob=i_dec > i_enq > 0)
        for k, v in f.items():
            if not v: status['walker:' + k] = 'not recognised / differs from the reference protocol'
        b = lambda x: 'true' if x else 'false'
        write('Walker.lean', 'import RjModel.Model.Walker\nnamespace Rj.Generated\ndef walkFeatures : WalkFeatures := ⟨' +
              ', '.join(b(f[k]) for k in ('entrySentBeforeJobQueued', 'incBeforeEnqueue', 'recursesOnUnfollowedType', 'skipBeforeSend', 'lastFinisherBroadcasts', 'decAfterJob')) + '⟩\nend Rj.Generated\n')

    def slash_table():
        import re as _re
        doc = read('docs/notes.md')
        rows = {}
        lines = doc.split('\n')
        # find the table: lines starting with '|' containing 'src/a'
        for i, l in enumerate(lines):
            m = _re.match(r'\|\s*(?:(File or|symlink|Folder|Non-existent)?\s*)?(?:symlink)?\s*src/a(/?)\s*\*?\|(.*)\|\s*$', l)
            if not m: continue
            cells = [c.strip() for c in m.group(3).split('|')]
            rows[i] = (m.group(2) == '/', cells, l)
        # row kinds by position: the table lists Non-existent (2 lines around an X line), File-or-symlink (2), Folder (2)
        idx = sorted(rows)
        table = []
        if len(idx) == 6:
            # non-existent rows have empty cells; the X line sits between them
            xline = [l for l in lines[idx[0]:idx[1] + 1] if 'Non-existent' in l]
            nx = [c.strip() for c in xline[0].split('|')[2:-1]] if xline else []
            table.append(('none', False, nx * 2 if len(nx) == 3 else nx)); table.append(('none', True, nx * 2 if len(nx) == 3 else nx))
            for j, kind in ((2, 'leaf'), (3, 'leaf'), (4, 'folder'), (5, 'folder')):
                table.append((kind, rows[idx[j]][0], rows[idx[j]][1]))
        def cell(c):
            c = c.replace(' ', '')
            return {'X': '.x', 'b': '.b false', 'b!': '.b true', 'b/a': '.ba'}.get(c)
        out = []
        ok = len(table) == 6
        for kind, slash, cells in table:
            if kind == 'none':
                cs = ['.x'] * 6 if all(c.replace(' ', '') == 'X' for c in cells) and cells else None
            else:
                cs = [cell(c) for c in cells] if len(cells) == 6 else None
            if not cs or None in cs:
                ok = False; cs = ['.x'] * 6
            out.append(f'  ⟨.{kind}, {"true" if slash else "false"}, [{", ".join(cs)}]⟩')
        if not ok:
            status['slash-table'] = 'docs/notes.md table not recognised'
        write('SlashTable.lean', 'import RjModel.Model.Root\nnamespace Rj.Generated\ndef slashTableRecognised : Bool := ' + ('true' if ok else 'false') +
              '\ndef slashTable : List SlashRow := [\n' + ',\n'.join(out) + '\n]\nend Rj.Generated\n')

    def session():
        """features of the remote doer's and the boss's session handling that the link theorems (C10) rest on"""
        import re as _re
        dr = strip_comments(read('src/doer.rs'))
        dm = fn_body(dr, 'doer_main') or ''
        def inside_loop(body, idx):
            # is position idx inside the block of a loop / while / for of this function body?
            for m in _re.finditer(r'\b(loop|while|for)\b[^{;]*\{', body):
                if m.start() > idx: break
                depth, j = 0, m.end() - 1
                while j < len(body):
                    if body[j] == '{': depth += 1
                    elif body[j] == '}':
                        depth -= 1
                        if depth == 0: break
                    j += 1
                if m.end() <= idx < j:
                    return True
            return False
        accepts = [m.start() for m in _re.finditer(r'\.accept\(\)', dm)]
        accept_once = len(accepts) == 1 and not inside_loop(dm, accepts[0])
        comms = [m.start() for m in _re.finditer(r'AsyncEncryptedComms::new\(', dm)]
        one_link = len(comms) == 1 and not inside_loop(dm, comms[0])
        key_reads = len(_re.findall(r'stdin\(\)\.read_line\(', dm))
        bl = strip_comments(read('src/boss_launch.rs'))
        lv = fn_body(bl, 'launch_doer_via_ssh') or ''
        fresh_key = _re.search(r'Aes128Gcm::generate_key\(\s*&mut\s+OsRng\s*\)', lv) is not None and 'lazy_static' not in lv and not _re.search(r'static\s+\w*KEY', bl)
        f = dict(doerAcceptsOnce=accept_once, doerOneLink=one_link, doerReadsKeyOnce=key_reads == 1, keyGeneratedPerLaunch=fresh_key)
        for k, v in f.items():
            if not v: status['session:' + k] = 'not recognised / differs from the reference'
        b = lambda x: 'true' if x else 'false'
        write('Session.lean', 'namespace Rj.Generated\nstructure SessionFeatures where\n  doerAcceptsOnce : Bool\n  doerOneLink : Bool\n  doerReadsKeyOnce : Bool\n  keyGeneratedPerLaunch : Bool\n  deriving DecidableEq, Repr\n'
              'def sessionFeatures : SessionFeatures := ⟨' + ', '.join(b(f[k]) for k in ('doerAcceptsOnce', 'doerOneLink', 'doerReadsKeyOnce', 'keyGeneratedPerLaunch')) + '⟩\nend Rj.Generated\n')

    def link_socket():
        """the TCP link and the channels behind it are used with plain blocking reads, writes and waits: no time-out, no deadline, no non-blocking mode anywhere in the source
        (the link theorems of C14/C09 speak about a stream that delivers or ends; a read that gives up after a silence is neither)"""
        import re as _re
        hits, secs = [], []
        for f in ['boss_launch', 'doer', 'encrypted_comms', 'boss_deploy', 'boss_frontend', 'boss_sync', 'main', 'memory_bound_channel']:
            try:
                src = strip_comments(read(f'src/{f}.rs'))
            except FileNotFoundError:
                continue
            i = src.find('#[cfg(test)]')
            if i >= 0: src = src[:i]
            for m in _re.finditer(r'\b(set_read_timeout|set_write_timeout|set_nonblocking|connect_timeout|set_linger|set_ttl|recv_timeout|recv_deadline|send_timeout|send_deadline|wait_timeout|wait_timeout_while|park_timeout)\s*\(', src):
                hits.append(f'{f}.rs:{m.group(1)}')
            secs += [int(x) for x in _re.findall(r'Duration::from_secs\(\s*(\d+)\s*\)', src)] + [int(x) // 1000 for x in _re.findall(r'Duration::from_millis\(\s*(\d+)\s*\)', src)]
        plain = not hits
        if not plain: status['link-socket'] = 'socket options set: ' + ', '.join(sorted(set(hits)))
        write('LinkSocket.lean', 'namespace Rj.Generated\n/-- no read/write time-out and no non-blocking mode is set on any socket -/\n'
              f'def linkSocketPlain : Bool := {"true" if plain else "false"}\n'
              f'def linkSocketOptions : List String := [{", ".join(lean_str(h) for h in sorted(set(hits)))}]\n'
              f'/-- the durations (whole seconds) that occur in those files: candidates for a time-out to wait out when searching for a failing input -/\n'
              f'def durationsSeen : List Nat := [{", ".join(str(x) for x in sorted(set(secs)))}]\nend Rj.Generated\n')

    def run_skel():
        """control skeleton of execute_spec: the exit code of each failure path, which comms each path shuts down, whether the per-sync
        error arm returns at once, and the function's final value"""
        import re as _re
        fe = strip_comments(read('src/boss_frontend.rs'))
        body = fn_body(fe, 'execute_spec') or ''
        def code_after(pos, limit):
            m = _re.search(r'return\s+ExitCode::from\(\s*(\d+)\s*\)', body[pos:limit])
            return (int(m.group(1)), pos + m.start()) if m else (None, None)
        # the two launches: `let mut X_comms = match setup_comms(...) { Ok(c) => c, Err(e) => { ...; return ExitCode::from(n); } };`
        launches = [m for m in _re.finditer(r'let\s+mut\s+(src|dest)_comms\s*=\s*match\s+setup_comms\s*\(', body)]
        ok = len(launches) == 2 and [m.group(1) for m in launches] == ['src', 'dest']
        src_code = dest_code = None; dest_shuts_src = False
        i_loop = body.find('for sync_spec in &spec.syncs')
        if ok and i_loop > launches[1].start():
            src_code, _ = code_after(launches[0].start(), launches[1].start())
            dest_code, at = code_after(launches[1].start(), i_loop)
            if at is not None:
                arm = body[launches[1].start():at]
                dest_shuts_src = 'src_comms.shutdown()' in arm[arm.rfind('Err('):]
        # the loop: every sync of the spec, in order, one `sync(...)` call, `match sync_result { Ok(()) => (), Err(e) => {...} }`
        loop_ok = False; err_ret = None; err_shuts = False
        final_shuts = False; final_success = False
        if i_loop >= 0:
            j = body.find('{', i_loop); depth = 0; end = None
            for q in range(j, len(body)):
                if body[q] == '{': depth += 1
                elif body[q] == '}':
                    depth -= 1
                    if depth == 0: end = q; break
            lp = body[j:end] if end else ''
            m_arm = _re.search(r'match\s+sync_result\s*\{\s*Ok\(\(\)\)\s*=>\s*\(\)\s*,\s*Err\(\w+\)\s*=>\s*\{(.*?)\}\s*\}', lp, _re.S)
            calls = len(_re.findall(r'\bsync\s*\(', lp))
            loop_ok = m_arm is not None and calls == 1 and not _re.search(r'\b(break|continue)\b', lp) and len(_re.findall(r'for\s+sync_spec\s+in', body)) == 1
            if m_arm:
                arm = m_arm.group(1)
                m_r = _re.search(r'return\s+ExitCode::from\(\s*(\d+)\s*\)\s*;\s*$', arm.strip())
                if m_r:
                    err_ret = int(m_r.group(1))
                    before = arm[:arm.rfind('return')]
                    err_shuts = before.count('src_comms.shutdown()') == 1 and before.count('dest_comms.shutdown()') == 1
            tail = body[end + 1:] if end else ''
            final_shuts = tail.count('src_comms.shutdown()') == 1 and tail.count('dest_comms.shutdown()') == 1
            final_success = _re.search(r'ExitCode::SUCCESS\s*\}?\s*$', tail.strip()) is not None and 'return' not in tail and 'ExitCode::from' not in tail
        # no other way out of the function, no exit code kept in a variable
        returns = len(_re.findall(r'\breturn\b', body))
        plain = returns == (1 if src_code is not None else 0) + (1 if dest_code is not None else 0) + (1 if err_ret is not None else 0) and not _re.search(r'let\s+mut\s+\w*(exit|code|status|result)\w*\s*[:=]', body)
        recognised = ok and src_code is not None and dest_code is not None and loop_ok and plain
        if not recognised:
            status['run-skel'] = 'execute_spec: shape not recognised / differs from the reference skeleton'
        b = lambda x: 'true' if x else 'false'
        o = lambda x: 'none' if x is None else f'(some {x})'
        write('RunSkel.lean', 'import RjModel.Model.Run\nnamespace Rj.Generated\n' +
              f'/-- the function has exactly the recognised shape: two launches, one loop over all syncs with one sync call, no other exits -/\n'
              f'def runSkelRecognised : Bool := {b(recognised)}\n'
              f'def runSkel : Run.RunSkel := ⟨{src_code or 0}, {dest_code or 0}, {b(dest_shuts_src)}, {o(err_ret)}, {b(err_shuts)}, {b(final_shuts)}, {b(final_success)}⟩\nend Rj.Generated\n')

    def decisions():
        """the two pure decision functions of boss_sync.rs, TRANSLATED (extract/translate.py) into Lean definitions"""
        import translate
        src = strip_comments(read('src/boss_sync.rs'))
        ok = True
        try:
            nd = fn_body(src, 'needs_delete'); nc = fn_body(src, 'needs_copy')
            # signatures: (src, dest, dest_platform_differentiates_symlinks) -> bool ; (ctx, path, src_details, dest_details) -> Option<CopyReason>
            import re as _re
            if not _re.search(r'fn\s+needs_delete\s*\(\s*src\s*:\s*&EntryDetails\s*,\s*dest\s*:\s*&EntryDetails\s*,\s*dest_platform_differentiates_symlinks\s*:\s*bool\s*\)\s*->\s*bool', src):
                raise translate.Unsupported('signature of needs_delete')
            if not _re.search(r'fn\s+needs_copy\s*\(\s*ctx\s*:\s*&SyncContext\s*,\s*path\s*:\s*&RootRelativePath\s*,\s*src_details\s*:\s*&EntryDetails\s*,\s*dest_details\s*:\s*&EntryDetails\s*\)\s*->\s*Option<CopyReason>', src):
                raise translate.Unsupported('signature of needs_copy')
            wrap = lambda b: b if b.strip().startswith('{') else '{' + b + '}'
            e_d = translate.translate(wrap(nd), {'src': 's', 'dest': 'd', 'dest_platform_differentiates_symlinks': 'c.destDiff'}, 'bool')
            e_c = translate.translate(wrap(nc), {'src_details': 's', 'dest_details': 'd', 'ctx.files_same_time_behaviour': 'c.sameTimeBehaviour'}, 'option')
        except Exception as e:
            ok = False
            status['decisions'] = f'needs_delete / needs_copy are outside the translated subset: {e!r}'
            e_d, e_c = 'true', 'none'
        write('Decisions.lean', 'import RjModel.Model.Planner\nnamespace Rj.Generated\n'
              '/-- both functions were inside the subset the translator (extract/translate.py) handles -/\n'
              f'def decisionsTranslated : Bool := {"true" if ok else "false"}\n'
              '/-- `needs_delete` of boss_sync.rs, translated -/\n'
              f'def needsDeleteSrc (c : PCfg) (s d : Details) : Bool :=\n  {e_d}\n'
              '/-- `needs_copy` of boss_sync.rs, translated (outer `none`: the `panic!("Wrong entry type")` arm) -/\n'
              f'def needsCopySrc (c : PCfg) (s d : Details) : Option (Option CopyReason) :=\n  {e_c}\nend Rj.Generated\n')

    def process_entries():
        """process_src_entry / process_dest_entry of boss_sync.rs, TRANSLATED statement by statement (extract/translate.py, class S)"""
        import translate
        import re as _re
        src = strip_comments(read('src/boss_sync.rs'))
        ok = True
        try:
            sig = (r'fn\s+process_%s_entry\s*\(\s*ctx\s*:\s*&mut\s+SyncContext\s*,\s*p\s*:\s*RootRelativePath\s*,\s*%s_entry\s*:\s*EntryDetails\s*,'
                   r'\s*src_entries\s*:\s*&(mut\s+)?EntriesList\s*,\s*dest_entries\s*:\s*&(mut\s+)?EntriesList\s*,'
                   r'\s*dest_platform_differentiates_symlinks\s*:\s*bool\s*,\s*to_delete\s*:\s*&mut\s+ToDelete\s*,\s*to_copy\s*:\s*&mut\s+ToCopy\s*,?\s*\)\s*\{')
            for side in ('src', 'dest'):
                if not _re.search(sig % (side, side), src):
                    raise translate.Unsupported('signature of process_%s_entry' % side)
            wrap = lambda b: b if b.strip().startswith('{') else '{' + b + '}'
            e_s = translate.translate_proc(wrap(fn_body(src, 'process_src_entry')), 'src_entry')
            e_d = translate.translate_proc(wrap(fn_body(src, 'process_dest_entry')), 'dest_entry')
            # the call sites in query_entries: the same containers, in the parameters' order
            calls = []
            for m in _re.finditer(r'(fn\s+)?process_(src|dest)_entry\s*\(', src):
                if m.group(1): continue
                i, depth = m.end(), 1
                while depth:
                    depth += {'(': 1, ')': -1}.get(src[i], 0); i += 1
                calls.append((m.group(2), src[m.end():i - 1]))
            want = {'src': ['&mutsrc_entries', '&dest_entries', 'dest_platform_differentiates_symlinks', '&mutto_delete', '&mutto_copy'],
                    'dest': ['&src_entries', '&mutdest_entries', 'dest_platform_differentiates_symlinks', '&mutto_delete', '&mutto_copy']}
            n_calls = {'src': 0, 'dest': 0}
            for side, args in calls:
                parts = [_re.sub(r'\s+', '', a) for a in args.split(',')]
                if parts[-5:] != want[side]:
                    raise translate.Unsupported('arguments of a process_%s_entry call: %r' % (side, parts))
                n_calls[side] += 1
            if n_calls != {'src': 2, 'dest': 2}:
                raise translate.Unsupported('call sites of process_*_entry: %r' % n_calls)
        except Exception as e:
            ok = False
            status['process-entries'] = f'process_src_entry / process_dest_entry are outside the translated subset: {e!r}'
            e_s = e_d = 'none'
        write('ProcessEntries.lean', 'import RjModel.Generated.Decisions\nnamespace Rj.Generated\n'
              '/-- both functions were inside the subset the statement translator handles -/\n'
              f'def processTranslated : Bool := {"true" if ok else "false"}\n'
              '/-- `process_src_entry` of boss_sync.rs, translated (`none`: a panic) -/\n'
              f'def processSrcEntrySrc (c : PCfg) (s : PState) (p : String) (src_entry : Details) : Option PState :=\n  {e_s}\n'
              '/-- `process_dest_entry` of boss_sync.rs, translated (`none`: a panic) -/\n'
              f'def processDestEntrySrc (c : PCfg) (s : PState) (p : String) (dest_entry : Details) : Option PState :=\n  {e_d}\nend Rj.Generated\n')

    def ordered_map():
        """ordered_map.rs TRANSLATED: every method body is a sequence of statements out of a small table (Vec push / reverse / iter().filter_map,
        HashMap insert / remove / get / get_mut().unwrap() / len); anything else: not translated (fail closed)"""
        import re as _re
        src = strip_comments(read('src/ordered_map.rs'))
        sq = lambda t: _re.sub(r'\s+', '', t)
        ok, why = True, ''
        STM = {  # statement (white space removed) -> Lean state transformer on (vec, map), in the Option monad (none = panic)
            'self.vec.push(k.clone());': 'some (OMap.mk (m.vec ++ [k]) m.map)',
            'self.map.insert(k,v);': 'some (OMap.mk m.vec ((k, v) :: erase m.map k))',
            'self.map.remove(k);': 'some (OMap.mk m.vec (erase m.map k))',
            'self.vec.reverse();': 'some (OMap.mk m.vec.reverse m.map)',
            '*self.map.get_mut(k).unwrap()=new_value;': '(if (lookup m.map k).isSome then some (OMap.mk m.vec ((k, new_value) :: erase m.map k)) else none)',
        }
        EXPR = {
            'self.map.get(k)': 'lookup m.map k',
            'self.map.len()': '(m.vec.eraseDups.filter fun k => (lookup m.map k).isSome).length',
        }
        ITER = 'letiter=self.vec.iter().filter_map(|k|self.map.get(k).and_then(|v|Some((k,v))));Box::new(iter)'
        sigs = {'add': r'pub\s+fn\s+add\s*\(\s*&mut\s+self\s*,\s*k\s*:\s*K\s*,\s*v\s*:\s*V\s*\)\s*\{',
                'remove': r'pub\s+fn\s+remove\s*\(\s*&mut\s+self\s*,\s*k\s*:\s*&K\s*\)\s*\{',
                'update': r'pub\s+fn\s+update\s*\(\s*&mut\s+self\s*,\s*k\s*:\s*&K\s*,\s*new_value\s*:\s*V\s*\)\s*\{',
                'reverse_order': r'pub\s+fn\s+reverse_order\s*\(\s*&mut\s+self\s*\)\s*\{',
                'lookup': r'pub\s+fn\s+lookup\s*\(\s*&self\s*,\s*k\s*:\s*&K\s*\)\s*->\s*Option<&V>\s*\{',
                'iter': r'pub\s+fn\s+iter\s*\(\s*&self\s*\)\s*->\s*Box<dyn\s+Iterator<Item\s*=\s*\(&K,\s*&V\)>\s*\+\s*\'_>\s*\{'}
        out = {}
        try:
            if not _re.search(r'pub\s+struct\s+OrderedMap<K,\s*V>\s*\{\s*vec\s*:\s*Vec<K>\s*,\s*map\s*:\s*HashMap<K,\s*V>\s*,?\s*\}', src):
                raise ValueError('struct OrderedMap')
            if sq(fn_body(src, 'new') or '') not in ('OrderedMap{vec:vec![],map:HashMap::new()}', '{OrderedMap{vec:vec![],map:HashMap::new()}}'):
                raise ValueError('new()')
            fns = sorted(_re.findall(r'\bfn\s+(\w+)', src))
            if fns != sorted(['new', 'add', 'len', 'iter', 'lookup', 'remove', 'reverse_order', 'update']):
                raise ValueError('methods of OrderedMap: %r' % fns)
            if sq(fn_body(src, 'len') or '').strip('{}') != 'self.map.len()': raise ValueError('body of len')
            for name, sig in sigs.items():
                if not _re.search(sig, src): raise ValueError('signature of ' + name)
                body = sq(fn_body(src, name) or '')
                if body.startswith('{') and body.endswith('}'): body = body[1:-1]
                if name in ('add', 'remove', 'update', 'reverse_order'):
                    steps = []
                    while body:
                        for k_, v_ in STM.items():
                            if body.startswith(k_):
                                steps.append(v_); body = body[len(k_):]; break
                        else:
                            raise ValueError(f'statement in {name}: {body[:40]}')
                    e = 'some m'
                    for st in reversed(steps):
                        e = f'(({st}).bind fun (m : OMap V) => {e})'
                    out[name] = e
                elif name == 'lookup':
                    if body not in EXPR: raise ValueError('body of lookup: ' + body[:40])
                    out[name] = EXPR[body]
                else:
                    if body != ITER: raise ValueError('body of iter: ' + body[:60])
                    out[name] = 'm.vec.filterMap fun k => (lookup m.map k).bind fun v => some (k, v)'
        except Exception as e:
            ok, why = False, repr(e)
            status['ordered-map'] = f'ordered_map.rs is outside the translated subset: {why}'
            out = {'add': 'none', 'remove': 'none', 'update': 'none', 'reverse_order': 'none', 'lookup': 'none', 'iter': '[]'}
        write('OrderedMapSrc.lean', 'import RjModel.Model.OMap\nnamespace Rj.Generated\nvariable {V : Type}\n'
              f'def orderedMapTranslated : Bool := {"true" if ok else "false"}\n'
              f'def omAdd (m : OMap V) (k : String) (v : V) : Option (OMap V) :=\n  {out["add"]}\n'
              f'def omRemove (m : OMap V) (k : String) : Option (OMap V) :=\n  {out["remove"]}\n'
              f'def omUpdate (m : OMap V) (k : String) (new_value : V) : Option (OMap V) :=\n  {out["update"]}\n'
              f'def omReverse (m : OMap V) : Option (OMap V) :=\n  {out["reverse_order"]}\n'
              f'def omLookup (m : OMap V) (k : String) : Option V :=\n  {out["lookup"]}\n'
              f'def omIter (m : OMap V) : List (String × V) :=\n  {out["iter"]}\nend Rj.Generated\n')

    def behaviour_writes():
        """every assignment to one of the behaviour fields of the SyncContext in boss_sync.rs: the field and whether the assignment is the body of
        `if let Some(b) = prompt_result.remembered_behaviour { ctx.<field> = b; }` inside the resolution of that same field"""
        import re as _re
        src = strip_comments(read('src/boss_sync.rs'))
        out = []
        for m in _re.finditer(r'(\w+(?:\.\w+)*)\.(\w+_behaviour)\s*=(?!=)\s*([^;]*);', src):
            owner, field, rhs = m.group(1), m.group(2), _re.sub(r'\s+', '', m.group(3))
            before = _re.sub(r'\s+', '', src[max(0, m.start() - 4000):m.start()])
            guard = before.endswith('ifletSome(b)=prompt_result.remembered_behaviour{')
            # the nearest enclosing resolution: `let resolved_behaviour = match ctx.<field> {`
            res = _re.findall(r'letresolved_behaviour=matchctx\.(\w+)\{', before)
            kind = 'remembered' if (owner == 'ctx' and rhs == 'b' and guard and res and res[-1] == field) else 'other:' + owner + '=' + rhs[:40]
            out.append((field, kind))
        write('BehaviourWrites.lean', 'namespace Rj.Generated\n/-- assignments to behaviour fields in boss_sync.rs: (field, "remembered" | "other:...") in source order -/\n'
              'def behaviourWrites : List (String × String) := [' + ', '.join(f'({lean_str(a)}, {lean_str(b)})' for a, b in out) + ']\nend Rj.Generated\n')
        if any(k != 'remembered' for _, k in out) or len(out) != 4:
            status['behaviour-writes'] = f'assignments to behaviour fields in boss_sync.rs: {out!r}'

    def root_rel():
        """`impl RootRelativePath` of root_relative_path.rs TRANSLATED: the set of methods, and the bodies of root / is_root / is_inside as
        `if c { a } else { b }` trees over a table of atoms"""
        import re as _re
        src = strip_comments(read('src/root_relative_path.rs'))
        sq = lambda t: _re.sub(r'\s+', '', t)
        ATOMS = {'self.inner.is_empty()': '(decide (k = ""))', 'folder.is_root()': '(isRootSrc folder)', '!self.is_root()': '(!(isRootSrc k))', 'self.is_root()': '(isRootSrc k)',
                 'self.inner.starts_with(&format!("{}/",folder.inner))': '((folder ++ "/").isPrefixOf k)', 'true': 'true', 'false': 'false'}
        def tr(e):
            e = e.strip()
            if e.startswith('{') and e.endswith('}') and balanced(e[1:-1]): return tr(e[1:-1])
            m = _re.match(r'if(.*?)\{', e)
            if e.startswith('if') and m:
                c = m.group(1); i = m.end() - 1; j = match_brace(e, i)
                rest = e[j + 1:]
                if not rest.startswith('else'): raise ValueError('if without else: ' + e[:40])
                return f'(if {atom(c)} then {tr(e[i:j + 1])} else {tr(rest[4:])})'
            return atom(e)
        def atom(a):
            if a not in ATOMS: raise ValueError('expression ' + a[:60])
            return ATOMS[a]
        def match_brace(t, i):
            d = 0
            for j in range(i, len(t)):
                d += {'{': 1, '}': -1}.get(t[j], 0)
                if d == 0: return j
            raise ValueError('unbalanced')
        def balanced(t):
            d = 0
            for ch in t:
                d += {'{': 1, '}': -1}.get(ch, 0)
                if d < 0: return False
            return d == 0
        ok = True
        out = {'is_root': 'false', 'is_inside': 'false'}
        try:
            m = _re.search(r'impl\s+RootRelativePath\s*\{', src)
            if not m: raise ValueError('impl RootRelativePath')
            end = m.end() - 1; d = 0
            for j in range(end, len(src)):
                d += {'{': 1, '}': -1}.get(src[j], 0)
                if d == 0: break
            block = src[m.end():j]
            fns = sorted(_re.findall(r'\bfn\s+(\w+)', block))
            if fns != sorted(['root', 'is_root', 'is_inside', 'get_full_path', 'regex_set_matches', 'to_platform_path']):
                raise ValueError('methods of RootRelativePath: %r' % fns)
            if not _re.search(r'pub\s+struct\s+RootRelativePath\s*\{\s*inner\s*:\s*String\s*,?\s*\}', src): raise ValueError('struct RootRelativePath')
            if sq(fn_body(block, 'root') or '').strip('{}') != 'RootRelativePath{inner:"".to_string()': raise ValueError('body of root()')
            if not _re.search(r'pub\s+fn\s+is_root\s*\(\s*&self\s*\)\s*->\s*bool', block) or not _re.search(r'pub\s+fn\s+is_inside\s*\(\s*&self\s*,\s*folder\s*:\s*&RootRelativePath\s*\)\s*->\s*bool', block):
                raise ValueError('signatures')
            out['is_root'] = tr(sq(fn_body(block, 'is_root')))
            out['is_inside'] = tr(sq(fn_body(block, 'is_inside')))
            if sq(fn_body(block, 'regex_set_matches') or '').strip('{}') != 'r.matches(&self.inner)': raise ValueError('body of regex_set_matches')
        except Exception as e:
            ok = False
            status['root-relative-path'] = f'impl RootRelativePath is outside the translated subset: {e!r}'
        write('RootRelSrc.lean', 'namespace Rj.Generated\n'
              f'def rootRelTranslated : Bool := {"true" if ok else "false"}\n'
              f'/-- `RootRelativePath::is_root`, translated (`k`: the inner string) -/\ndef isRootSrc (k : String) : Bool :=\n  {out["is_root"]}\n'
              f'/-- `RootRelativePath::is_inside`, translated -/\ndef isInsideSrc (k folder : String) : Bool :=\n  {out["is_inside"]}\nend Rj.Generated\n')

    def confirm_shape():
        """confirm_actions, copy_entry and copy_file of boss_sync.rs, NORMALISED (comments, white space, `trace!` / `debug!` statements and the text of string
        literals removed): the model's confirmDeletes / blockedCopies / confirmCopies and its copy loop were written against exactly these shapes; they are
        pinned in Model/ConfirmShape.lean"""
        import re as _re
        src = strip_comments(read('src/boss_sync.rs'))
        def shape_of(name):
            body = fn_body(src, name) or ''
            sig = _re.search(r'fn\s+' + name + r'\s*\(([^)]*)\)\s*->\s*([^{]*)\{', src)
            # string literals lose their text, except one-word labels (the prompt options "Skip", "Delete", "Overwrite": which answer means what)
            t = _re.sub(r'"(?:[^"\\]|\\.)*"', lambda m_: m_.group(0) if _re.fullmatch(r'"[A-Z][a-z]{1,11}"', m_.group(0)) else '""', body)
            # `trace!( ... );` / `debug!( ... );` statements (balanced parentheses)
            out, i = [], 0
            while i < len(t):
                m = _re.compile(r'\b(?:trace|debug)!\s*\(').search(t, i)
                if not m:
                    out.append(t[i:]); break
                out.append(t[i:m.start()]); j, d = m.end(), 1
                while d and j < len(t):
                    d += {'(': 1, ')': -1}.get(t[j], 0); j += 1
                while j < len(t) and t[j] in ' \t\n': j += 1
                if j < len(t) and t[j] == ';': j += 1
                i = j
            shape = _re.sub(r'\s+', '', ''.join(out))
            shape = (_re.sub(r'\s+', '', sig.group(1)) + '->' + _re.sub(r'\s+', '', sig.group(2)) + shape) if sig else 'NO-SIGNATURE'
            return [shape[k:k + 100] for k in range(0, len(shape), 100)]
        text = 'namespace Rj.Generated\n'
        boss_src = src
        for name, lean in (('confirm_actions', 'confirmActionsShape'), ('copy_entry', 'copyEntryShape'), ('copy_file', 'copyFileShape'), ('exec_command', 'execCommandShape'),
                           ('filter_func', 'filterFuncShape'), ('handle_get_entries', 'handleGetEntriesShape')):
            src = strip_comments(read('src/doer.rs')) if name in ('exec_command', 'filter_func', 'handle_get_entries') else boss_src
            text += f'/-- `{name}`, normalised (see extract_more.py `confirm_shape`) -/\ndef {lean} : List String := [\n  ' + ',\n  '.join(lean_str(c) for c in shape_of(name)) + ']\n'
        write('ConfirmShape.lean', text + 'end Rj.Generated\n')

    def delete_cmd():
        """delete_dest_entry of boss_sync.rs: the command chosen for an entry, TRANSLATED; and where it is sent (destination, only outside a dry run)"""
        import translate
        import re as _re
        src = strip_comments(read('src/boss_sync.rs'))
        ok = True; e_c = '.deleteFile p'
        try:
            if not _re.search(r'fn\s+delete_dest_entry\s*\(\s*ctx\s*:\s*&mut\s+SyncContext\s*,\s*progress\s*:\s*&mut\s+Progress\s*,\s*dest_path\s*:\s*&RootRelativePath\s*,\s*dest_details\s*:\s*&EntryDetails\s*\)', src):
                raise translate.Unsupported('signature of delete_dest_entry')
            body = fn_body(src, 'delete_dest_entry')
            m = _re.search(r'let\s+c\s*=\s*(match\s+dest_details\s*\{)', body)
            if not m: raise translate.Unsupported('let c = match dest_details')
            i = m.end(1) - 1; d = 0
            for j in range(i, len(body)):
                d += {'{': 1, '}': -1}.get(body[j], 0)
                if d == 0: break
            e_c = translate.translate_delete_cmd(body[m.start(1):j + 1], 'dest_path', 'dest_details')
            rest = _re.sub(r'\s+', '', body[j + 1:])
            # the command goes to the destination, and only when this is not a dry run; nothing else is sent from here
            if 'if!ctx.dry_run{ctx.dest_comms.send_command(c)?;}else{' not in rest: raise translate.Unsupported('send of the command')
            if len(_re.findall(r'send_command', body)) != 1 or 'src_comms' in body: raise translate.Unsupported('other sends in delete_dest_entry')
        except Exception as e:
            ok = False
            status['delete-cmd'] = f'delete_dest_entry is outside the translated subset: {e!r}'
        write('DeleteCmd.lean', 'import RjModel.Model.Boss\nnamespace Rj.Generated\n'
              f'def deleteCmdTranslated : Bool := {"true" if ok else "false"}\n'
              '/-- the command `delete_dest_entry` builds for a destination entry, translated -/\n'
              f'def deleteCmdSrc (p : String) (d : Details) : Cmd :=\n  {e_c}\nend Rj.Generated\n')

    def try_from():
        """RootRelativePath::try_from(&Path) of root_relative_path.rs TRANSLATED: the loop over the path's components - which characters refuse a component,
        what is put between two components - as a step function for a fold"""
        import re as _re
        src = strip_comments(read('src/root_relative_path.rs'))
        ok = True; chars, sep = [], '/'
        try:
            m = _re.search(r'impl\s+TryFrom<&Path>\s+for\s+RootRelativePath\s*\{', src)
            if not m: raise ValueError('impl TryFrom<&Path>')
            body = _re.sub(r'\s+', '', fn_body(src[m.start():], 'try_from') or '')
            if body.startswith('{') and body.endswith('}'): body = body[1:-1]
            E = r'returnErr\("[^"]*"\.to_string\(\)\)'
            pat = (r'ifp\.is_absolute\(\)\{' + E + r';\}letmutresult=String::new\(\);forcinp\.iter\(\)\{letcs=matchc\.to_str\(\)\{Some\(x\)=>x,None=>' + E + r',\};'
                   r"if((?:cs\.contains\('(?:\\\\|[^'\\])'\)(?:\|\|)?)+)\{" + E + r';\}if!result\.is_empty\(\)\{result\+="([^"\\]*)";\}result\+=cs;\}Ok\(RootRelativePath\{inner:result\}\)')
            mm = _re.fullmatch(pat, body)
            if not mm: raise ValueError('body of try_from: ' + body[:80])
            chars = _re.findall(r"cs\.contains\('(\\\\|[^'\\])'\)", mm.group(1)); sep = mm.group(2)
            if len(sep) != 1: raise ValueError('separator ' + sep)
        except Exception as e:
            ok = False
            status['try-from'] = f'RootRelativePath::try_from is outside the translated subset: {e!r}'
        lc = lambda c: "'\\\\'" if c == '\\\\' else "'" + c + "'"
        cond = ' || '.join(f'cs.contains {lc(c)}' for c in chars) or 'false'
        write('TryFrom.lean', 'namespace Rj.Generated\n'
              f'def tryFromTranslated : Bool := {"true" if ok else "false"}\n'
              '/-- one round of the loop of `RootRelativePath::try_from`: `none` = the component is refused -/\n'
              'def tryFromStepSrc (result cs : List Char) : Option (List Char) :=\n'
              f'  if ({cond}) then none\n  else some ((if !result.isEmpty then result ++ [{lc(sep)}] else result) ++ cs)\n'
              '/-- the loop over the components (the path is relative; every component is valid UTF-8) -/\n'
              'def tryFromSrc (comps : List (List Char)) : Option (List Char) := comps.foldlM tryFromStepSrc []\nend Rj.Generated\n')

    def apply_filters_skel():
        """apply_filters of doer.rs: the early return for the root, the default by the first filter's kind, the assignment loop"""
        import re as _re
        d = strip_comments(read('src/doer.rs'))
        body = fn_body(d, 'apply_filters') or ''
        val = {'Include': 'true', 'Exclude': 'false'}
        root = _re.search(r'if\s+path\.is_root\(\)\s*\{\s*return\s+FilterResult::Include\s*;\s*\}', body) is not None
        m = _re.search(r'let\s+mut\s+result\s*=\s*match\s+filters\.kinds\.get\(0\)\s*\{(.*?)\}\s*;', body, _re.S)
        dd = {}
        if m:
            for a in _re.finditer(r'(Some\(FilterKind::(Include|Exclude)\)|None)\s*=>\s*FilterResult::(Include|Exclude)', m.group(1)):
                dd[a.group(2) or 'None'] = val[a.group(3)]
        lp = _re.search(r'for\s+(\w+)\s+in\s+matches\s*\{\s*let\s+(\w+)\s*=\s*filters\.kinds\[\1\]\s*;\s*match\s+\2\s*\{(.*?)\}\s*\}', body, _re.S)
        aa = {}
        if lp:
            for a in _re.finditer(r'FilterKind::(Include|Exclude)\s*=>\s*result\s*=\s*FilterResult::(Include|Exclude)', lp.group(3)):
                aa[a.group(1)] = val[a.group(2)]
        matches_ok = _re.search(r'let\s+matches\s*=\s*path\.regex_set_matches\(\s*&filters\.regex_set\s*\)\s*;', body) is not None
        tail_ok = _re.search(r'\}\s*result\s*\}?\s*$', body.strip()) is not None
        # nothing else: the statements found account for the whole body
        rest = body
        for mm in (m, lp):
            if mm: rest = rest.replace(mm.group(0), '')
        rest = _re.sub(r'if\s+path\.is_root\(\)\s*\{\s*return\s+FilterResult::Include\s*;\s*\}', '', rest)
        rest = _re.sub(r'let\s+matches\s*=\s*path\.regex_set_matches\(\s*&filters\.regex_set\s*\)\s*;', '', rest)
        rest = _re.sub(r'[{}\s]|result', '', rest)
        shape = bool(m and lp and len(dd) == 3 and len(aa) == 2 and matches_ok and tail_ok and rest == '')
        if not shape:
            status['apply-filters'] = 'apply_filters: shape not recognised / differs from the reference'
        g = lambda t, k: t.get(k, 'false')
        b = lambda x: 'true' if x else 'false'
        write('FilterLoop.lean', 'import RjModel.Model.Regex\nnamespace Rj.Generated\n' +
              f'def applyFiltersSkel : ApplyFiltersSkel := ⟨{b(root)}, {g(dd, "Include")}, {g(dd, "Exclude")}, {g(dd, "None")}, {g(aa, "Include")}, {g(aa, "Exclude")}, {b(shape)}⟩\nend Rj.Generated\n')

    def path_desc():
        """RemotePathDesc::from_str: the arms of the match on `s.split_once(':')`, in particular the guard of the Windows drive-letter arm"""
        import re as _re
        fe = strip_comments(read('src/boss_frontend.rs'))
        m = _re.search(r'impl\s+std::str::FromStr\s+for\s+RemotePathDesc\s*\{', fe)
        body = fn_body(fe[m.start():], 'from_str') if m else ''
        body = body or ''
        arms = _re.findall(r'(None|Some\(\((\w+)\s*,\s*(\w+)\)\))\s*(?:if\s+(.*?))?\s*=>\s*\{', body[:body.find('split_once(\'@\')')] if 'split_once(\'@\')' in body else body)
        guards = [_re.sub(r'\s+', '', a[3]) for a in arms if a[3]]
        guard = guards[0] if len(guards) == 1 else ''
        binders = [(a[1], a[2]) for a in arms if a[3]]
        if guard and binders:
            guard = _re.sub(r'\b' + binders[0][0] + r'\b', 'A', guard); guard = _re.sub(r'\b' + binders[0][1] + r'\b', 'B', guard)
        n_split = len(_re.findall(r'split_once\(', body))
        if not guard: status['path-desc'] = 'RemotePathDesc::from_str: drive-letter arm not recognised'
        write('PathDesc.lean', 'namespace Rj.Generated\n/-- guard of the drive-letter arm of RemotePathDesc::from_str (white space removed, the two binders renamed A and B), and the number of `split_once` calls -/\n'
              f'def pathDescDriveGuard : String := {lean_str(guard)}\ndef pathDescSplits : Nat := {n_split}\nend Rj.Generated\n')

    g_ = g
    return {'try_from': try_from, 'delete_cmd': delete_cmd, 'confirm_shape': confirm_shape, 'root_rel': root_rel, 'behaviour_writes': behaviour_writes, 'ordered_map': ordered_map, 'process_entries': process_entries, 'path_desc': path_desc, 'apply_filters_skel': apply_filters_skel, 'decisions': decisions, 'run_skel': run_skel, 'link_socket': link_socket, 'session': session, 'defaults': defaults, 'skeletons': skeletons, 'sites': sites, 'shutdown': shutdown, 'panic_sites': panic_sites, 'walker': walker, 'slash_table': slash_table}
